// Generates the RefNode -> Locate::try_from dispatch (one arm per derive(Node) type),
// scanning the syntax-tree sources the same way sv-parser-syntaxtree/build.rs does.
use std::fs;
use std::io::Write;
use std::path::{Path, PathBuf};

fn walk(dir: &Path, out: &mut Vec<PathBuf>) {
    if let Ok(rd) = fs::read_dir(dir) {
        let mut entries: Vec<_> = rd.flatten().map(|e| e.path()).collect();
        entries.sort();
        for p in entries {
            if p.is_dir() {
                walk(&p, out);
            } else if p.extension().map(|e| e == "rs").unwrap_or(false) {
                out.push(p);
            }
        }
    }
}

fn main() {
    let src = Path::new("/repo/sv-parser-syntaxtree/src");
    println!("cargo:rerun-if-changed=/repo/sv-parser-syntaxtree/src");
    println!("cargo:rerun-if-changed=build.rs");
    let mut files = vec![];
    walk(src, &mut files);
    let mut names: Vec<String> = vec![];
    for f in files {
        let text = fs::read_to_string(&f).unwrap_or_default();
        let mut hit = false;
        for line in text.lines() {
            if hit {
                if let Some(name) = line.split_whitespace().nth(2) {
                    let name = name.replace("<'a>", "");
                    if name.chars().all(|c| c.is_alphanumeric() || c == '_') {
                        names.push(name);
                    }
                }
            }
            let t = line.trim_start();
            hit = t.starts_with("#[derive") && t.contains("Node") && !t.contains("RefNode") && !t.contains("AnyNode");
        }
    }
    names.sort();
    names.dedup();
    let out_dir = std::env::var("OUT_DIR").unwrap();
    let mut out = fs::File::create(Path::new(&out_dir).join("locate_dispatch.rs")).unwrap();
    writeln!(out, "pub fn locate_try_from(n: &sv_parser::RefNode) -> Result<sv_parser::Locate, ()> {{").unwrap();
    writeln!(out, "    use std::convert::TryFrom;").unwrap();
    writeln!(out, "    match n {{").unwrap();
    writeln!(out, "        sv_parser::RefNode::Locate(x) => Ok(**x),").unwrap();
    for n in &names {
        writeln!(out, "        sv_parser::RefNode::{}(x) => sv_parser::Locate::try_from(*x),", n).unwrap();
    }
    writeln!(out, "    }}").unwrap();
    writeln!(out, "}}").unwrap();
    writeln!(out, "pub const NODE_KINDS: usize = {};", names.len()).unwrap();
}
