//! Simulated file system (stub for S1). No real disk I/O happens in any check.

use crate::scenario::{Bytes, Fault, FaultKind, VNode};
use std::collections::{BTreeMap, HashMap};
use std::io;
use std::sync::{Arc, Mutex};

#[derive(Clone, Debug)]
pub enum Node {
    File(Arc<Vec<u8>>),
    Dir,
    Symlink(String),
}

#[derive(Clone, Debug, PartialEq, Eq, serde::Serialize, serde::Deserialize)]
pub enum Answer {
    True,
    False,
    Opened,
    /// Debug rendering of the io::ErrorKind
    Err(String),
    /// end of a read stream: bytes delivered, how it ended, whether the delivered bytes are UTF-8
    Stream { delivered: usize, end: String, utf8: bool },
}

#[derive(Clone, Debug, serde::Serialize, serde::Deserialize)]
pub struct Event {
    pub seq: u64,
    pub tid: usize,
    pub call: usize,
    pub op: String,
    /// path as the library passed it
    pub raw_path: String,
    /// normalised absolute path
    pub path: String,
    pub answer: Answer,
    /// FileScope nesting depth of the calling thread (1 = top file)
    pub file_depth: usize,
    pub macro_depth: usize,
    pub fault: Option<String>,
}

#[derive(Default)]
struct CallCtx {
    faults: Vec<Fault>,
    counts: HashMap<(String, &'static str), u32>,
    call_index: usize,
    /// paths that vanished during this call (TOCTOU); the file system itself is not changed
    vanished: std::collections::HashSet<String>,
}

struct Inner {
    cwd: String,
    nodes: BTreeMap<String, Node>,
    log: Vec<Event>,
    seq: u64,
    ctx: HashMap<usize, CallCtx>,
    opens: u64,
    open_budget: u64,
    fired: BTreeMap<&'static str, u64>,
    budget_tripped: bool,
}

pub struct Vfs {
    inner: Mutex<Inner>,
}

pub fn normalise(cwd: &str, p: &str) -> String {
    let full = if p.starts_with('/') {
        p.to_string()
    } else {
        format!("{}/{}", cwd.trim_end_matches('/'), p)
    };
    let mut out: Vec<&str> = vec![];
    for comp in full.split('/') {
        match comp {
            "" | "." => {}
            ".." => {
                out.pop();
            }
            c => out.push(c),
        }
    }
    format!("/{}", out.join("/"))
}

impl Vfs {
    pub fn new(cwd: &str, nodes: &[VNode], open_budget: u64) -> Vfs {
        let mut map = BTreeMap::new();
        for n in nodes {
            match n {
                VNode::File { path, bytes } => {
                    map.insert(normalise(cwd, path), Node::File(Arc::new(bytes.to_vec())));
                }
                VNode::Dir { path } => {
                    map.insert(normalise(cwd, path), Node::Dir);
                }
                VNode::Symlink { path, target } => {
                    map.insert(normalise(cwd, path), Node::Symlink(target.clone()));
                }
            }
        }
        Vfs {
            inner: Mutex::new(Inner {
                cwd: cwd.to_string(),
                nodes: map,
                log: vec![],
                seq: 0,
                ctx: HashMap::new(),
                opens: 0,
                open_budget,
                fired: BTreeMap::new(),
                budget_tripped: false,
            }),
        }
    }

    pub fn snapshot(&self) -> Vec<VNode> {
        let g = self.inner.lock().unwrap();
        g.nodes
            .iter()
            .map(|(p, n)| match n {
                Node::File(b) => VNode::File {
                    path: p.clone(),
                    bytes: Bytes::from_vec(b),
                },
                Node::Dir => VNode::Dir { path: p.clone() },
                Node::Symlink(t) => VNode::Symlink {
                    path: p.clone(),
                    target: t.clone(),
                },
            })
            .collect()
    }

    pub fn cwd(&self) -> String {
        self.inner.lock().unwrap().cwd.clone()
    }

    pub fn begin_call(&self, tid: usize, call_index: usize, faults: &[Fault]) {
        let mut g = self.inner.lock().unwrap();
        g.ctx.insert(
            tid,
            CallCtx {
                faults: faults.to_vec(),
                counts: HashMap::new(),
                call_index,
                vanished: Default::default(),
            },
        );
    }

    pub fn rewrite(&self, path: &str, bytes: Vec<u8>) {
        let mut g = self.inner.lock().unwrap();
        let p = normalise(&g.cwd, path);
        g.nodes.insert(p, Node::File(Arc::new(bytes)));
    }

    pub fn remove(&self, path: &str) {
        let mut g = self.inner.lock().unwrap();
        let p = normalise(&g.cwd, path);
        g.nodes.remove(&p);
    }

    /// fault-free content of a file, for the string entry points of a scenario
    pub fn peek(&self, path: &str) -> Option<Vec<u8>> {
        let g = self.inner.lock().unwrap();
        let p = normalise(&g.cwd, path);
        match resolve(&g.nodes, &p) {
            Ok((_, Node::File(b))) => Some(b.to_vec()),
            _ => None,
        }
    }

    pub fn log(&self) -> Vec<Event> {
        self.inner.lock().unwrap().log.clone()
    }

    pub fn log_len(&self) -> usize {
        self.inner.lock().unwrap().log.len()
    }

    pub fn fired(&self) -> BTreeMap<&'static str, u64> {
        self.inner.lock().unwrap().fired.clone()
    }

    pub fn budget_tripped(&self) -> bool {
        self.inner.lock().unwrap().budget_tripped
    }

    pub fn exists(&self, tid: usize, raw: &str, depths: (usize, usize)) -> bool {
        let mut g = self.inner.lock().unwrap();
        let p = normalise(&g.cwd, raw);
        let fault = take_fault(&mut g, tid, &p, "exists");
        let real = resolve(&g.nodes, &p).is_ok() && !is_vanished(&g, tid, &p);
        let (ans, fname) = match fault {
            Some(FaultKind::ToctouVanish) => {
                g.ctx.entry(tid).or_default().vanished.insert(p.clone());
                (true, Some("toctou_vanish"))
            }
            Some(FaultKind::ToctouAppear) => (false, Some("toctou_appear")),
            _ => (real, None),
        };
        if let Some(f) = fname {
            *g.fired.entry(f).or_insert(0) += 1;
        }
        push_event(
            &mut g,
            tid,
            "exists",
            raw,
            &p,
            if ans { Answer::True } else { Answer::False },
            depths,
            fname,
        );
        ans
    }

    pub fn open(
        self: &Arc<Self>,
        tid: usize,
        raw: &str,
        depths: (usize, usize),
    ) -> io::Result<SimReader> {
        let mut g = self.inner.lock().unwrap();
        let p = normalise(&g.cwd, raw);
        g.opens += 1;
        if g.opens > g.open_budget {
            g.budget_tripped = true;
            push_event(
                &mut g,
                tid,
                "open",
                raw,
                &p,
                Answer::Err(format!("{:?}", io::ErrorKind::Other)),
                depths,
                Some("open_budget"),
            );
            return Err(io::Error::new(io::ErrorKind::Other, "svsim: open budget exhausted"));
        }
        let fault = take_fault(&mut g, tid, &p, "open");
        let mut is_dir_fault = false;
        if let Some(f) = &fault {
            let kind = match f {
                FaultKind::Enoent => Some(io::ErrorKind::NotFound),
                FaultKind::Eacces => Some(io::ErrorKind::PermissionDenied),
                FaultKind::Emfile => Some(io::ErrorKind::Other),
                FaultKind::IsDir => {
                    is_dir_fault = true;
                    None
                }
                _ => None,
            };
            *g.fired.entry(f.name()).or_insert(0) += 1;
            if let Some(kind) = kind {
                push_event(&mut g, tid, "open", raw, &p, Answer::Err(format!("{:?}", kind)), depths, Some(f.name()));
                return Err(io::Error::new(kind, "svsim: injected open fault"));
            }
        }
        let resolved = if is_vanished(&g, tid, &p) {
            Err(io::ErrorKind::NotFound)
        } else {
            resolve(&g.nodes, &p).map(|(rp, n)| (rp, n.clone()))
        };
        match resolved {
            Err(kind) => {
                push_event(&mut g, tid, "open", raw, &p, Answer::Err(format!("{:?}", kind)), depths, None);
                Err(io::Error::new(kind, "svsim: no such file"))
            }
            Ok((_, node)) => {
                let (data, dir) = match node {
                    Node::File(b) if !is_dir_fault => (b, false),
                    _ => (Arc::new(Vec::new()), true),
                };
                // collect the read-stream faults planned for this open
                let mut rd = ReadPlan::default();
                rd.is_dir = dir;
                let mut data = data;
                loop {
                    let f = take_fault(&mut g, tid, &p, "read");
                    match f {
                        None => break,
                        Some(FaultKind::ShortRead { chunks }) => {
                            if !chunks.is_empty() {
                                rd.chunks = chunks
                            }
                            rd.planned.push("short_read");
                        }
                        Some(FaultKind::Eintr { every }) => {
                            rd.eintr_every = every.max(1);
                            rd.planned.push("eintr");
                        }
                        Some(FaultKind::EioAt { k }) => {
                            rd.eio_at = Some(k.min(data.len()));
                            rd.planned.push("eio_at");
                        }
                        Some(FaultKind::TruncateAt { k }) => {
                            let mut v = data.to_vec();
                            v.truncate(k);
                            data = Arc::new(v);
                            rd.planned.push("truncate_at");
                            *g.fired.entry("truncate_at").or_insert(0) += 1;
                        }
                        Some(FaultKind::Corrupt { k, byte }) => {
                            let mut v = data.to_vec();
                            if k < v.len() {
                                v[k] = byte;
                                *g.fired.entry("corrupt").or_insert(0) += 1;
                            }
                            data = Arc::new(v);
                            rd.planned.push("corrupt");
                        }
                        Some(FaultKind::InvalidUtf8Tail) => {
                            let mut v = data.to_vec();
                            v.extend_from_slice(&[0xC3, 0x28, 0xFF]);
                            data = Arc::new(v);
                            rd.planned.push("invalid_utf8_tail");
                            *g.fired.entry("invalid_utf8_tail").or_insert(0) += 1;
                        }
                        Some(_) => {}
                    }
                }
                push_event(
                    &mut g,
                    tid,
                    "open",
                    raw,
                    &p,
                    Answer::Opened,
                    depths,
                    if is_dir_fault { Some("is_dir") } else { None },
                );
                Ok(SimReader {
                    vfs: self.clone(),
                    tid,
                    raw: raw.to_string(),
                    path: p,
                    data,
                    pos: 0,
                    plan: rd,
                    reads: 0,
                    depths,
                    done: false,
                })
            }
        }
    }

    fn stream_end(&self, r: &SimReader, end: &'static str, fault: Option<&'static str>) {
        let mut g = self.inner.lock().unwrap();
        push_event(
            &mut g,
            r.tid,
            "read",
            &r.raw,
            &r.path,
            Answer::Stream {
                delivered: r.pos,
                end: end.to_string(),
                utf8: std::str::from_utf8(&r.data[..r.pos.min(r.data.len())]).is_ok(),
            },
            r.depths,
            fault,
        );
    }

    fn fire(&self, name: &'static str) {
        let mut g = self.inner.lock().unwrap();
        *g.fired.entry(name).or_insert(0) += 1;
    }
}

fn is_vanished(g: &Inner, tid: usize, p: &str) -> bool {
    g.ctx.get(&tid).map(|c| c.vanished.contains(p)).unwrap_or(false)
}

fn push_event(
    g: &mut Inner,
    tid: usize,
    op: &'static str,
    raw: &str,
    p: &str,
    answer: Answer,
    depths: (usize, usize),
    fault: Option<&'static str>,
) {
    g.seq += 1;
    let call = g.ctx.get(&tid).map(|c| c.call_index).unwrap_or(0);
    let seq = g.seq;
    g.log.push(Event {
        seq,
        tid,
        call,
        op: op.to_string(),
        raw_path: raw.to_string(),
        path: p.to_string(),
        answer,
        file_depth: depths.0,
        macro_depth: depths.1,
        fault: fault.map(|f| f.to_string()),
    });
}

/// the n-th (per call, per path, per op) operation consults the fault plan
fn take_fault(g: &mut Inner, tid: usize, p: &str, op: &'static str) -> Option<FaultKind> {
    let ctx = g.ctx.entry(tid).or_default();
    if op == "read" {
        // read faults are attached to the n-th open of the path; each is consumed once per open
        let n = *ctx.counts.get(&(p.to_string(), "open")).unwrap_or(&1) - 1;
        let idx = ctx.faults.iter().position(|f| {
            f.path == p && f.kind.op() == "read" && (f.nth.is_none() || f.nth == Some(n))
        });
        // consume by marking nth as impossible for this open: move to a taken list
        if let Some(i) = idx {
            let f = ctx.faults.remove(i);
            let kind = f.kind.clone();
            if f.nth.is_none() {
                // re-arm for later opens: park it in counts under a shadow key
                ctx.counts
                    .entry((format!("\u{0}rearm:{}", serde_json::to_string(&f).unwrap()), "read"))
                    .or_insert(0);
            }
            return Some(kind);
        }
        return None;
    }
    let n = {
        let c = ctx.counts.entry((p.to_string(), op)).or_insert(0);
        let n = *c;
        *c += 1;
        n
    };
    if op == "open" {
        // re-arm 'every open' read faults consumed by a previous open
        let keys: Vec<String> = ctx
            .counts
            .keys()
            .filter(|(k, o)| *o == "read" && k.starts_with("\u{0}rearm:"))
            .map(|(k, _)| k.clone())
            .collect();
        for k in keys {
            ctx.counts.remove(&(k.clone(), "read"));
            if let Ok(f) = serde_json::from_str::<Fault>(&k["\u{0}rearm:".len()..]) {
                ctx.faults.push(f);
            }
        }
    }
    ctx.faults
        .iter()
        .find(|f| f.path == p && f.kind.op() == op && (f.nth.is_none() || f.nth == Some(n)))
        .map(|f| f.kind.clone())
}

fn resolve<'a>(
    nodes: &'a BTreeMap<String, Node>,
    p: &str,
) -> Result<(String, &'a Node), io::ErrorKind> {
    let mut cur = p.to_string();
    for _ in 0..8 {
        match nodes.get(&cur) {
            None => {
                // implicit directories: a path that is a prefix of some node
                let prefix = format!("{}/", cur.trim_end_matches('/'));
                if nodes.keys().any(|k| k.starts_with(&prefix)) || cur == "/" {
                    return Ok((cur, &Node::Dir));
                }
                return Err(io::ErrorKind::NotFound);
            }
            Some(Node::Symlink(t)) => {
                let parent = match cur.rfind('/') {
                    Some(0) | None => "/".to_string(),
                    Some(i) => cur[..i].to_string(),
                };
                cur = normalise(&parent, t);
            }
            Some(n) => return Ok((cur, n)),
        }
    }
    // too many levels of symbolic links
    Err(io::ErrorKind::Other)
}

#[derive(Default, Debug)]
struct ReadPlan {
    chunks: Vec<usize>,
    eintr_every: usize,
    eio_at: Option<usize>,
    is_dir: bool,
    planned: Vec<&'static str>,
}

pub struct SimReader {
    vfs: Arc<Vfs>,
    tid: usize,
    raw: String,
    path: String,
    data: Arc<Vec<u8>>,
    pos: usize,
    plan: ReadPlan,
    reads: usize,
    depths: (usize, usize),
    done: bool,
}

impl SimReader {
    pub fn path(&self) -> &str {
        &self.path
    }
}

impl io::Read for SimReader {
    fn read(&mut self, buf: &mut [u8]) -> io::Result<usize> {
        self.reads += 1;
        if self.plan.is_dir {
            if !self.done {
                self.done = true;
                self.vfs.stream_end(self, "eisdir", Some("is_dir"));
            }
            return Err(io::Error::new(io::ErrorKind::Other, "svsim: is a directory"));
        }
        if self.plan.eintr_every > 0 && self.reads % (self.plan.eintr_every + 1) == 1 {
            self.vfs.fire("eintr");
            return Err(io::Error::new(io::ErrorKind::Interrupted, "svsim: EINTR"));
        }
        if let Some(k) = self.plan.eio_at {
            if self.pos >= k {
                if !self.done {
                    self.done = true;
                    self.vfs.fire("eio_at");
                    self.vfs.stream_end(self, "eio", Some("eio_at"));
                }
                return Err(io::Error::new(io::ErrorKind::Other, "svsim: EIO"));
            }
        }
        let mut n = buf.len().min(self.data.len() - self.pos);
        if let Some(k) = self.plan.eio_at {
            n = n.min(k - self.pos);
        }
        if !self.plan.chunks.is_empty() && n > 0 {
            let c = self.plan.chunks[(self.reads - 1) % self.plan.chunks.len()].max(1);
            if c < n {
                n = c;
                self.vfs.fire("short_read");
            }
        }
        buf[..n].copy_from_slice(&self.data[self.pos..self.pos + n]);
        self.pos += n;
        if n == 0 && !buf.is_empty() && !self.done {
            self.done = true;
            self.vfs.stream_end(self, "eof", None);
        }
        Ok(n)
    }
}
