//! Canonical, comparable rendering of every kind of result the library returns.

use crate::rng::fnv;
use std::fmt::Write;
use sv_parser::{Defines, Error, Locate, PreprocessedText, RefNode, SyntaxTree};

#[derive(Clone, Debug, PartialEq, Eq, serde::Serialize, serde::Deserialize)]
pub struct Digest {
    /// "Ok" or "Err:<outer variant>"
    pub kind: String,
    pub hash: u64,
    /// full canonical form (kept for reports and for the C10 model)
    pub full: String,
    /// accepted or rejected, and the tree/text only (no error payload): what C17 compares
    pub accept_hash: u64,
    /// preprocessed text of an Ok result
    pub text: Option<String>,
    /// rendered error of an Err result
    pub err: Option<String>,
    /// returned define table of an Ok result: name -> body text (None: no value / no body)
    pub defines: Option<std::collections::BTreeMap<String, Option<String>>>,
}

impl Digest {
    pub fn from_full(kind: &str, full: String, accept_part: &str) -> Digest {
        Digest {
            kind: kind.to_string(),
            hash: fnv(full.as_bytes()),
            accept_hash: fnv(accept_part.as_bytes()),
            full,
            text: None,
            err: None,
            defines: None,
        }
    }
    pub fn short(&self) -> String {
        format!("{}#{:016x}", self.kind, self.hash)
    }
    pub fn is_ok(&self) -> bool {
        self.kind == "Ok"
    }
}

pub fn first_diff(a: &str, b: &str) -> String {
    let la: Vec<&str> = a.lines().collect();
    let lb: Vec<&str> = b.lines().collect();
    for i in 0..la.len().max(lb.len()) {
        let x = la.get(i).copied().unwrap_or("<end>");
        let y = lb.get(i).copied().unwrap_or("<end>");
        if x != y {
            let clip = |s: &str| -> String { s.chars().take(160).collect() };
            return format!("line {}: expected `{}` observed `{}`", i + 1, clip(x), clip(y));
        }
    }
    "no difference".to_string()
}

pub fn err_string(e: &Error) -> String {
    match e {
        Error::Io(x) => format!("Io({:?})", x.kind()),
        Error::File { source, path } => format!("File({:?},{:?})", source.kind(), path),
        Error::ReadUtf8(p) => format!("ReadUtf8({:?})", p),
        Error::Include { source } => format!("Include({})", err_string(source)),
        Error::Parse(x) => format!("Parse({:?})", x),
        Error::Preprocess(x) => format!("Preprocess({:?})", x),
        Error::DefineArgNotFound(x) => format!("DefineArgNotFound({:?})", x),
        Error::DefineNotFound(x) => format!("DefineNotFound({:?})", x),
        Error::DefineNoArgs(x) => format!("DefineNoArgs({:?})", x),
        Error::ExceedRecursiveLimit => "ExceedRecursiveLimit".to_string(),
        Error::IncludeLine => "IncludeLine".to_string(),
    }
}

pub fn err_variant(e: &Error) -> &'static str {
    match e {
        Error::Io(_) => "Io",
        Error::File { .. } => "File",
        Error::ReadUtf8(_) => "ReadUtf8",
        Error::Include { .. } => "Include",
        Error::Parse(_) => "Parse",
        Error::Preprocess(_) => "Preprocess",
        Error::DefineArgNotFound(_) => "DefineArgNotFound",
        Error::DefineNotFound(_) => "DefineNotFound",
        Error::DefineNoArgs(_) => "DefineNoArgs",
        Error::ExceedRecursiveLimit => "ExceedRecursiveLimit",
        Error::IncludeLine => "IncludeLine",
    }
}

/// (number of Include wrappers, innermost error)
pub fn unwrap_includes(e: &Error) -> (usize, &Error) {
    let mut n = 0;
    let mut cur = e;
    while let Error::Include { source } = cur {
        n += 1;
        cur = source;
    }
    (n, cur)
}

pub fn digest_err(e: &Error) -> Digest {
    let s = err_string(e);
    let kind = format!("Err:{}", err_variant(e));
    let mut d = Digest::from_full(&kind, format!("ERR {}\n", s), "REJECT");
    d.err = Some(s);
    d
}

pub fn defines_map(defines: &Defines) -> std::collections::BTreeMap<String, Option<String>> {
    defines
        .iter()
        .map(|(k, v)| (k.clone(), v.as_ref().and_then(|d| d.text.as_ref().map(|t| t.text.clone()))))
        .collect()
}

fn write_defines(out: &mut String, defines: &Defines) {
    let mut names: Vec<&String> = defines.keys().collect();
    names.sort();
    let _ = writeln!(out, "DEFINES {}", names.len());
    for n in names {
        match &defines[n] {
            None => {
                let _ = writeln!(out, " {} = <none>", n);
            }
            Some(d) => {
                let _ = write!(out, " {} id={:?} args={:?}", n, d.identifier, d.arguments);
                match &d.text {
                    None => {
                        let _ = writeln!(out, " text=<none>");
                    }
                    Some(t) => {
                        let _ = writeln!(
                            out,
                            " text={:?} origin={:?}",
                            t.text,
                            t.origin.as_ref().map(|(p, r)| (p.clone(), r.begin, r.end))
                        );
                    }
                }
            }
        }
    }
}

fn write_text_and_origins(out: &mut String, text: &PreprocessedText) {
    let t = text.text();
    let _ = writeln!(out, "TEXT {}", t.len());
    let _ = writeln!(out, "{:?}", t);
    // origins, run-length encoded over (path, delta)
    let mut run: Option<(usize, Option<(String, i64)>)> = None;
    let _ = writeln!(out, "ORIGINS");
    for pos in 0..t.len() {
        let o = text
            .origin(pos)
            .map(|(p, off)| (p.to_string_lossy().to_string(), off as i64 - pos as i64));
        match &run {
            Some((_, cur)) if *cur == o => {}
            _ => {
                if let Some((start, cur)) = run.take() {
                    let _ = writeln!(out, " {}..{} {:?}", start, pos, cur);
                }
                run = Some((pos, o));
            }
        }
    }
    if let Some((start, cur)) = run.take() {
        let _ = writeln!(out, " {}..{} {:?}", start, t.len(), cur);
    }
}

pub fn digest_pp(r: &Result<(PreprocessedText, Defines), Error>) -> Digest {
    match r {
        Err(e) => digest_err(e),
        Ok((text, defines)) => {
            let mut out = String::new();
            out.push_str("OK pp\n");
            write_text_and_origins(&mut out, text);
            let accept = format!("ACCEPT {:?}", text.text());
            write_defines(&mut out, defines);
            let mut d = Digest::from_full("Ok", out, &accept);
            d.text = Some(text.text().to_string());
            d.defines = Some(defines_map(defines));
            d
        }
    }
}

pub fn write_nodes<'a, I: Iterator<Item = RefNode<'a>>>(out: &mut String, text: Option<&str>, it: I) -> usize {
    let mut n = 0;
    for node in it {
        n += 1;
        match node {
            RefNode::Locate(l) => {
                let Locate { offset, line, len } = *l;
                match text {
                    Some(t) => match t.get(offset..offset.wrapping_add(len)) {
                        Some(s) => {
                            let _ = writeln!(out, "L {} {} {} {:?}", offset, line, len, s);
                        }
                        None => {
                            let _ = writeln!(out, "L {} {} {} <out of text>", offset, line, len);
                        }
                    },
                    None => {
                        let _ = writeln!(out, "L {} {} {}", offset, line, len);
                    }
                }
            }
            other => {
                let _ = writeln!(out, "{}", other);
            }
        }
    }
    n
}

pub fn digest_tree(r: &Result<(SyntaxTree, Defines), Error>) -> Digest {
    match r {
        Err(e) => digest_err(e),
        Ok((tree, defines)) => {
            let mut out = String::new();
            out.push_str("OK tree\n");
            let text = tree.verif_text();
            let _ = writeln!(out, "TEXT {}", text.len());
            let _ = writeln!(out, "{:?}", text);
            let mut nodes = String::new();
            let n = write_nodes(&mut nodes, Some(text), tree.into_iter());
            let _ = writeln!(out, "NODES {}", n);
            out.push_str(&nodes);
            // origin of every token
            let _ = writeln!(out, "TOKEN-ORIGINS");
            for node in tree {
                if let RefNode::Locate(l) = node {
                    let o = tree
                        .get_origin(l)
                        .map(|(p, off)| (p.to_string_lossy().to_string(), off));
                    let _ = writeln!(out, " {} {:?}", l.offset, o);
                }
            }
            let accept = format!("ACCEPT {:?}\n{}", text, nodes);
            write_defines(&mut out, defines);
            let mut d = Digest::from_full("Ok", out, &accept);
            d.text = Some(text.to_string());
            d.defines = Some(defines_map(defines));
            d
        }
    }
}

/// raw nom entry points of sv-parser-parser: Ok((offset of the rest, node)) or Err(error position)
pub fn digest_raw(text: &str, r: &Result<(usize, sv_parser::AnyNode), Option<usize>>) -> Digest {
    match r {
        Ok((rest, any)) => {
            let mut out = String::new();
            let _ = writeln!(out, "OK raw rest_offset={}", rest);
            let mut nodes = String::new();
            let node: RefNode = any.into();
            let n = write_nodes(&mut nodes, Some(text), node.into_iter());
            let _ = writeln!(out, "NODES {}", n);
            out.push_str(&nodes);
            let accept = format!("ACCEPT {}\n{}", rest, nodes);
            Digest::from_full("Ok", out, &accept)
        }
        Err(pos) => Digest::from_full("Err:Raw", format!("ERR raw pos={:?}\n", pos), "REJECT"),
    }
}
