//! C10 — `include splices the named file with defines flowing in and out.
//!
//! A small line language over a simulated file system, an executable reference model that is
//! independent of /repo, and a monitor over the file-system conversation: the model issues its
//! own exists/open/read operations against a twin of the simulated file system (same nodes, same
//! fault plan) and the two operation logs must be identical — which is both the resolution
//! protocol check and the "no file is read" monitor.

use super::common::*;
use crate::exec::{exec, ExecOpts};
use crate::prop::{Property, RunReport};
use crate::rng::{run_seed, Rng};
use crate::scenario::*;
use crate::vfs::{Answer, Event, Vfs};
use serde::{Deserialize, Serialize};
use serde_json::json;
use std::collections::BTreeMap;
use std::io::Read;
use std::path::{Path, PathBuf};
use std::sync::Arc;

pub struct C10;

#[derive(Clone, Debug, PartialEq, Serialize, Deserialize)]
#[serde(rename_all = "snake_case", tag = "l")]
pub enum Line {
    Marker { tok: String },
    /// `define name [body]
    Define { name: String, body: Option<String> },
    /// `define name "file"
    DefineName { name: String, file: String },
    /// `define name `include "file"
    DefineInc { name: String, file: String },
    Undef { name: String },
    UndefAll,
    /// `name ;
    Usage { name: String },
    /// `name          (a macro whose body is an `include)
    UsageInc { name: String },
    If {
        neg: bool,
        name: String,
        then: Vec<Line>,
        elsifs: Vec<(String, Vec<Line>)>,
        els: Option<Vec<Line>>,
    },
    /// syntax 0: "name", 1: <name>, 2: `name (macro holding the quoted file name)
    Include { syntax: u8, name: String, pre: u8, post: u8, tok: String },
}

pub const PRE_ERR: &[u8] = &[3, 4, 5, 7];
pub const POST_ERR: &[u8] = &[6, 7, 9, 10];

fn render_pre(pre: u8, tok: &str) -> String {
    match pre {
        1 => "  ".into(),
        2 => "/* c */ ".into(),
        3 => format!("{}; ", tok),
        4 => "`undef ZZ9 ".into(),
        5 => "\"s\" ".into(),
        6 => "\t".into(),
        7 => "`ifdef ZZ8\n`endif ".into(),
        _ => String::new(),
    }
}

fn render_post(post: u8, tok: &str) -> String {
    match post {
        1 => "   ".into(),
        2 => " // c".into(),
        3 => " /* c */".into(),
        4 => " /* c */   ".into(),
        5 => " /* c */ // d".into(),
        6 => format!(" {};", tok),
        7 => " `include \"zz_other.svh\"".into(),
        8 => format!(" /* c\n */ {};", tok),
        9 => " `undef ZZ9".into(),
        10 => " \"s\"".into(),
        _ => String::new(),
    }
}

pub fn render(lines: &[Line], out: &mut String) {
    for l in lines {
        match l {
            Line::Marker { tok } => out.push_str(&format!("{};\n", tok)),
            Line::Define { name, body } => match body {
                Some(b) => out.push_str(&format!("`define {} {}\n", name, b)),
                None => out.push_str(&format!("`define {}\n", name)),
            },
            Line::DefineName { name, file } => out.push_str(&format!("`define {} \"{}\"\n", name, file)),
            Line::DefineInc { name, file } => out.push_str(&format!("`define {} `include \"{}\"\n", name, file)),
            Line::Undef { name } => out.push_str(&format!("`undef {}\n", name)),
            Line::UndefAll => out.push_str("`undefineall\n"),
            Line::Usage { name } => out.push_str(&format!("`{} ;\n", name)),
            Line::UsageInc { name } => out.push_str(&format!("`{}\n", name)),
            Line::If { neg, name, then, elsifs, els } => {
                out.push_str(&format!("`{} {}\n", if *neg { "ifndef" } else { "ifdef" }, name));
                render(then, out);
                for (n, ls) in elsifs {
                    out.push_str(&format!("`elsif {}\n", n));
                    render(ls, out);
                }
                if let Some(ls) = els {
                    out.push_str("`else\n");
                    render(ls, out);
                }
                out.push_str("`endif\n");
            }
            Line::Include { syntax, name, pre, post, tok } => {
                out.push_str(&render_pre(*pre, tok));
                match syntax {
                    0 => out.push_str(&format!("`include \"{}\"", name)),
                    1 => out.push_str(&format!("`include <{}>", name)),
                    _ => out.push_str(&format!("`include `{}", name)),
                }
                out.push_str(&render_post(*post, tok));
                out.push('\n');
            }
        }
    }
}

// ---------------------------------------------------------------------------------------------
// reference model

#[derive(Clone, Debug, PartialEq)]
pub enum MErr {
    File(std::io::ErrorKind, String),
    ReadUtf8(String),
    Include(Box<MErr>),
    DefineNotFound(String),
    IncludeLine,
    /// the model met something outside its language (harness problem, never a verdict)
    Unmodelled(String),
}

impl MErr {
    pub fn render(&self) -> String {
        match self {
            MErr::File(k, p) => format!("File({:?},{:?})", k, PathBuf::from(p)),
            MErr::ReadUtf8(p) => format!("ReadUtf8({:?})", PathBuf::from(p)),
            MErr::Include(e) => format!("Include({})", e.render()),
            MErr::DefineNotFound(n) => format!("DefineNotFound({:?})", n),
            MErr::IncludeLine => "IncludeLine".to_string(),
            MErr::Unmodelled(s) => format!("Unmodelled({})", s),
        }
    }
}

type Table = BTreeMap<String, Option<String>>;

/// IEEE 1800-2017 40.3.1 predefined coverage macros: defined at the start of every run, and
/// re-installed (if absent) whenever a nested run starts: an included file, a macro expansion
pub const PREDEFINED: &[(&str, &str)] = &[
    ("SV_COV_START", "0"), ("SV_COV_STOP", "1"), ("SV_COV_RESET", "2"), ("SV_COV_CHECK", "3"), ("SV_COV_MODULE", "10"),
    ("SV_COV_HIER", "11"), ("SV_COV_ASSERTION", "20"), ("SV_COV_FSM_STATE", "21"), ("SV_COV_STATEMENT", "22"),
    ("SV_COV_TOGGLE", "23"), ("SV_COV_OVERFLOW", "-2"), ("SV_COV_ERROR", "-1"), ("SV_COV_NOCOV", "0"), ("SV_COV_OK", "1"),
    ("SV_COV_PARTIAL", "2"),
];

fn reinstall_predefined(table: &mut Table) {
    for (k, v) in PREDEFINED {
        table.entry(k.to_string()).or_insert_with(|| Some(v.to_string()));
    }
}

struct Model<'a> {
    vfs: Arc<Vfs>,
    /// structured content by normalised path
    files: &'a BTreeMap<String, Vec<Line>>,
    include_paths: Vec<String>,
    ignore_include: bool,
    cwd: String,
    out: Vec<String>,
    depth: usize,
}

impl<'a> Model<'a> {
    fn read_file(&mut self, raw: &str) -> Result<&'a Vec<Line>, MErr> {
        let mut r = self
            .vfs
            .open(0, raw, (self.depth, 0))
            .map_err(|e| MErr::File(e.kind(), raw.to_string()))?;
        let mut bytes = vec![];
        let norm = r.path().to_string();
        if r.read_to_end(&mut bytes).is_err() || std::str::from_utf8(&bytes).is_err() {
            return Err(MErr::ReadUtf8(raw.to_string()));
        }
        let _ = &self.cwd;
        match self.files.get(&norm) {
            Some(l) => {
                let mut t = String::new();
                render(l, &mut t);
                if t.as_bytes() != bytes.as_slice() {
                    return Err(MErr::Unmodelled(format!("content of {} differs from its structured form", norm)));
                }
                Ok(l)
            }
            None => Err(MErr::Unmodelled(format!("no structured form for {}", norm))),
        }
    }

    /// the resolution protocol of the statement, conducted against the file system
    fn resolve(&mut self, name: &str) -> String {
        let p = Path::new(name);
        if p.is_absolute() {
            return name.to_string();
        }
        if self.vfs.exists(0, name, (self.depth, 0)) {
            return name.to_string();
        }
        for d in self.include_paths.clone() {
            let cand = Path::new(&d).join(p).to_string_lossy().to_string();
            if self.vfs.exists(0, &cand, (self.depth, 0)) {
                return cand;
            }
        }
        name.to_string()
    }

    fn include(&mut self, name: &str, table: &mut Table) -> Result<(), MErr> {
        let path = self.resolve(name);
        self.depth += 1;
        let r = self.file(&path, table);
        self.depth -= 1;
        r.map_err(|e| MErr::Include(Box::new(e)))
    }

    fn file(&mut self, raw: &str, table: &mut Table) -> Result<(), MErr> {
        let lines = self.read_file(raw)?;
        reinstall_predefined(table);
        self.lines(lines, table)
    }

    fn lines(&mut self, lines: &[Line], table: &mut Table) -> Result<(), MErr> {
        for l in lines {
            match l {
                Line::Marker { tok } => self.out.push(tok.clone()),
                Line::Define { name, body } => {
                    table.insert(name.clone(), body.clone());
                }
                Line::DefineName { name, file } => {
                    table.insert(name.clone(), Some(format!("\"{}\"", file)));
                }
                Line::DefineInc { name, file } => {
                    table.insert(name.clone(), Some(format!("`include \"{}\"", file)));
                }
                Line::Undef { name } => {
                    table.remove(name);
                }
                Line::UndefAll => table.clear(),
                Line::Usage { name } => match table.get(name) {
                    None => return Err(MErr::DefineNotFound(name.clone())),
                    Some(None) => {}
                    Some(Some(b)) => {
                        // the expansion is a nested run: it starts from the predefined set
                        let pre = name.starts_with("SV_COV_");
                        let b = b.clone();
                        reinstall_predefined(table);
                        if b.starts_with("v_") {
                            self.out.push(b.clone());
                        } else if pre || b.chars().all(|c| c.is_ascii_digit() || c == '-') {
                            // a predefined constant: expands to a number, no marker token
                        } else {
                            return Err(MErr::Unmodelled(format!("usage of {} with body {}", name, b)));
                        }
                    }
                },
                Line::UsageInc { name } => match table.get(name).cloned() {
                    None => return Err(MErr::DefineNotFound(name.clone())),
                    Some(Some(b)) if b.starts_with("`include \"") => {
                        reinstall_predefined(table);
                        if !self.ignore_include {
                            let file = b["`include \"".len()..].trim_end_matches('"').to_string();
                            self.include(&file, table)?;
                        }
                    }
                    Some(other) => return Err(MErr::Unmodelled(format!("usage of {} with body {:?}", name, other))),
                },
                Line::If { neg, name, then, elsifs, els } => {
                    let mut taken = false;
                    if table.contains_key(name) != *neg {
                        taken = true;
                        self.lines(then, table)?;
                    }
                    if !taken {
                        for (n, ls) in elsifs {
                            if table.contains_key(n) {
                                taken = true;
                                self.lines(ls, table)?;
                                break;
                            }
                        }
                    }
                    if !taken {
                        if let Some(ls) = els {
                            self.lines(ls, table)?;
                        }
                    }
                }
                Line::Include { syntax, name, pre, post, tok } => {
                    if *pre == 3 {
                        self.out.push(tok.clone());
                    }
                    if *pre == 4 {
                        table.remove("ZZ9");
                    }
                    if self.ignore_include {
                        if PRE_ERR.contains(pre) || POST_ERR.contains(post) {
                            return Err(MErr::Unmodelled("same-line neighbours under ignore_include".into()));
                        }
                        if *syntax == 2 {
                            match table.get(name) {
                                None => return Err(MErr::DefineNotFound(name.clone())),
                                Some(Some(_)) => reinstall_predefined(table),
                                Some(None) => {}
                            }
                        }
                    } else {
                        if PRE_ERR.contains(pre) {
                            return Err(MErr::IncludeLine);
                        }
                        let file = if *syntax == 2 {
                            match table.get(name) {
                                None => return Err(MErr::DefineNotFound(name.clone())),
                                Some(Some(b)) if b.starts_with('"') => b.trim_matches('"').to_string(),
                                Some(other) => return Err(MErr::Unmodelled(format!("include through {} = {:?}", name, other))),
                            }
                        } else {
                            name.clone()
                        };
                        self.include(&file, table)?;
                        if POST_ERR.contains(post) {
                            return Err(MErr::IncludeLine);
                        }
                    }
                    if *post == 8 {
                        self.out.push(tok.clone());
                    }
                }
            }
        }
        Ok(())
    }
}

fn tokens_of(text: &str) -> Vec<String> {
    let mut out = vec![];
    for line in text.lines() {
        // a kept `define runs to the end of its line (it may follow spliced trivia)
        let line = match line.find("`define") {
            Some(i) => &line[..i],
            None => line,
        };
        let mut cur = String::new();
        for c in line.chars().chain(std::iter::once(' ')) {
            if c.is_ascii_alphanumeric() || c == '_' {
                cur.push(c);
            } else {
                if cur.starts_with("t_") || cur.starts_with("v_") {
                    out.push(cur.clone());
                }
                cur.clear();
            }
        }
    }
    out
}

fn log_view(log: &[Event]) -> Vec<String> {
    log.iter()
        .map(|e| {
            let a = match &e.answer {
                Answer::True => "true".to_string(),
                Answer::False => "false".to_string(),
                Answer::Opened => "opened".to_string(),
                Answer::Err(k) => format!("err({})", k),
                Answer::Stream { delivered, end, .. } => format!("stream({},{})", delivered, end),
            };
            format!("{} {} -> {}", e.op, e.path, a)
        })
        .collect()
}

// ---------------------------------------------------------------------------------------------
// generator

struct G<'r> {
    rng: &'r mut Rng,
    nfiles: usize,
    tokn: u64,
    /// this scenario probes the predefined SV_COV_* macros; it then never removes them (whether they come
    /// back after `undefineall is the implementation's business, not the statement's)
    predef: bool,
}

impl<'r> G<'r> {
    fn tok(&mut self, fid: usize) -> String {
        self.tokn += 1;
        // '@' is replaced by the copy tag when a physical copy is instantiated
        format!("t_f{}@_{}", fid, self.tokn)
    }
    fn mname(&mut self) -> String {
        format!("M{}", self.rng.below(5))
    }
    fn gname(&mut self) -> String {
        format!("G{}", self.rng.below(4))
    }
    fn cond_name(&mut self) -> String {
        if self.predef && self.rng.chance(1, 4) {
            return self.rng.pick(&["SV_COV_START", "SV_COV_TOGGLE", "SV_COV_OK"]).to_string();
        }
        if self.rng.coin() {
            self.mname()
        } else {
            self.gname()
        }
    }

    fn include_line(&mut self, fid: usize, neighbours: bool) -> Option<Line> {
        if fid + 1 >= self.nfiles {
            return None;
        }
        let target = fid + 1 + self.rng.usize_below(self.nfiles - fid - 1);
        let mut name = format!("f{}.svh", target);
        match self.rng.below(14) {
            0 => name = format!("/inc2/{}", name),
            1 => name = format!("sub/{}", name),
            2 => name = "nowhere.svh".to_string(),
            3 => name = format!("./{}", name),
            4 => name = format!("../w/{}", name),
            _ => {}
        }
        let tok = self.tok(fid);
        let (pre, post) = if neighbours {
            let pre = *self.rng.pick(&[0u8, 0, 0, 0, 1, 2, 6, 3, 4, 5, 7]);
            let post = *self.rng.pick(&[0u8, 0, 0, 1, 2, 3, 4, 5, 8, 8, 6, 7, 9, 10]);
            (pre, post)
        } else {
            (*self.rng.pick(&[0u8, 0, 1, 2, 6]), *self.rng.pick(&[0u8, 0, 1, 2, 3, 4, 5, 8]))
        };
        let syntax = *self.rng.pick(&[0u8, 0, 0, 1, 2]);
        if syntax == 2 {
            Some(Line::Include { syntax, name: format!("N{}", target), pre, post, tok })
        } else {
            Some(Line::Include { syntax, name, pre, post, tok })
        }
    }

    fn body(&mut self, fid: usize, n: usize, depth: usize, neighbours: bool) -> Vec<Line> {
        let mut v = vec![];
        for _ in 0..n {
            let k = self.rng.below(20);
            let line = match k {
                0..=4 => Line::Marker { tok: self.tok(fid) },
                5 | 6 => {
                    self.tokn += 1;
                    Line::Define { name: self.mname(), body: Some(format!("v_f{}@_{}", fid, self.tokn)) }
                }
                7 => Line::Define { name: self.gname(), body: None },
                8 => {
                    let n = if self.rng.coin() { self.mname() } else { self.gname() };
                    Line::Undef { name: n }
                }
                9 => {
                    if !self.predef && self.rng.chance(1, 6) {
                        Line::UndefAll
                    } else {
                        Line::Marker { tok: self.tok(fid) }
                    }
                }
                10 | 11 => {
                    if self.predef && self.rng.chance(1, 4) {
                        Line::Usage { name: self.rng.pick(&["SV_COV_START", "SV_COV_TOGGLE", "SV_COV_ERROR"]).to_string() }
                    } else {
                        Line::Usage { name: self.mname() }
                    }
                }
                12 | 13 if depth > 0 => {
                    let k2 = 1 + self.rng.usize_below(2);
                    let then = self.body(fid, k2, depth - 1, neighbours);
                    let elsifs = if self.rng.chance(1, 3) {
                        let n2 = self.cond_name();
                        vec![(n2, self.body(fid, 1, depth - 1, neighbours))]
                    } else {
                        vec![]
                    };
                    let els = if self.rng.coin() { Some(self.body(fid, 1, depth - 1, neighbours)) } else { None };
                    Line::If { neg: self.rng.chance(1, 3), name: self.cond_name(), then, elsifs, els }
                }
                14 => {
                    // include through a macro body
                    if fid + 1 < self.nfiles {
                        let target = fid + 1 + self.rng.usize_below(self.nfiles - fid - 1);
                        v.push(Line::DefineInc { name: format!("X{}", target), file: format!("f{}.svh", target) });
                        Line::UsageInc { name: format!("X{}", target) }
                    } else {
                        Line::Marker { tok: self.tok(fid) }
                    }
                }
                _ => match self.include_line(fid, neighbours) {
                    Some(Line::Include { syntax: 2, name, pre, post, tok }) => {
                        // define the name macro first, most of the time
                        if self.rng.chance(7, 8) {
                            let target = name[1..].to_string();
                            v.push(Line::DefineName { name: name.clone(), file: format!("f{}.svh", target) });
                        }
                        Line::Include { syntax: 2, name, pre, post, tok }
                    }
                    Some(l) => l,
                    None => Line::Marker { tok: self.tok(fid) },
                },
            };
            v.push(line);
        }
        v
    }
}

fn instantiate(lines: &[Line], tag: &str) -> Vec<Line> {
    let f = |s: &String| s.replace('@', tag);
    lines
        .iter()
        .map(|l| match l {
            Line::Marker { tok } => Line::Marker { tok: f(tok) },
            Line::Define { name, body } => Line::Define { name: name.clone(), body: body.as_ref().map(f) },
            Line::If { neg, name, then, elsifs, els } => Line::If {
                neg: *neg,
                name: name.clone(),
                then: instantiate(then, tag),
                elsifs: elsifs.iter().map(|(n, ls)| (n.clone(), instantiate(ls, tag))).collect(),
                els: els.as_ref().map(|ls| instantiate(ls, tag)),
            },
            Line::Include { syntax, name, pre, post, tok } => Line::Include {
                syntax: *syntax,
                name: name.clone(),
                pre: *pre,
                post: *post,
                tok: f(tok),
            },
            other => other.clone(),
        })
        .collect()
}

fn files_of(sc: &Scenario) -> BTreeMap<String, Vec<Line>> {
    serde_json::from_value(sc.expect["files"].clone()).unwrap_or_default()
}

fn set_files(sc: &mut Scenario, files: &BTreeMap<String, Vec<Line>>) {
    sc.expect["files"] = serde_json::to_value(files).unwrap_or(json!({}));
    // re-render: the file system always holds exactly the structured form
    sc.vfs.retain(|n| !matches!(n, VNode::File { .. }));
    for (p, l) in files {
        let mut t = String::new();
        render(l, &mut t);
        sc.vfs.push(VNode::file(p, &t));
    }
}

fn drop_line_variants(lines: &[Line]) -> Vec<Vec<Line>> {
    let mut out = vec![];
    for i in 0..lines.len() {
        let mut v = lines.to_vec();
        v.remove(i);
        out.push(v);
        match &lines[i] {
            Line::If { neg, name, then, elsifs, els } => {
                // replace the conditional by one of its branches, or shrink inside
                for b in std::iter::once(then).chain(elsifs.iter().map(|(_, l)| l)).chain(els.iter()) {
                    let mut v = lines.to_vec();
                    v.splice(i..i + 1, b.iter().cloned());
                    out.push(v);
                }
                for sub in drop_line_variants(then) {
                    let mut v = lines.to_vec();
                    v[i] = Line::If { neg: *neg, name: name.clone(), then: sub, elsifs: elsifs.clone(), els: els.clone() };
                    out.push(v);
                }
                if !elsifs.is_empty() || els.is_some() {
                    let mut v = lines.to_vec();
                    v[i] = Line::If { neg: *neg, name: name.clone(), then: then.clone(), elsifs: vec![], els: None };
                    out.push(v);
                }
            }
            Line::Include { syntax, name, pre, post, tok } => {
                if *pre != 0 {
                    let mut v = lines.to_vec();
                    v[i] = Line::Include { syntax: *syntax, name: name.clone(), pre: 0, post: *post, tok: tok.clone() };
                    out.push(v);
                }
                if *post != 0 {
                    let mut v = lines.to_vec();
                    v[i] = Line::Include { syntax: *syntax, name: name.clone(), pre: *pre, post: 0, tok: tok.clone() };
                    out.push(v);
                }
            }
            _ => {}
        }
    }
    out
}

impl Property for C10 {
    fn id(&self) -> &'static str {
        "C10"
    }
    fn level(&self) -> &'static str {
        "fault_enumeration"
    }
    fn runs(&self, tier: &str) -> u64 {
        if tier == "thorough" {
            800_000
        } else {
            12_000
        }
    }
    fn rule(&self) -> String {
        "one run = one include graph (<= 6 files, depth <= 5, fan-out <= 3, same file possibly twice) written in a line language (marker tokens, `define/`undef/`undefineall, usages, `ifdef/`ifndef/`elsif/`else probes, three include syntaxes, includes through a macro name and through a macro body, eleven before/after same-line neighbour variants), each named file present as physically distinct copies (unique marker tokens) in none / one / several of cwd and 1..3 search directories, relative / sub-directory / absolute names, ignore_include on/off, caller defines; faults on the resolution conversation: toctou_vanish / toctou_appear on an exists probe, ENOENT / EACCES on open, non-UTF-8 copy. Oracle: an executable reference model (independent of /repo) interprets the language and conducts its own exists/open/read conversation with a twin of the simulated file system; compared are (1) the two operation logs (probe order, first-hit rule, nothing opened in dead branches or under ignore_include), (2) marker/body tokens of the output, (3) the returned define table, (4) the error value. distinct = hash of scenario; non-trivial iff an include resolved through a search directory, failed, met a fault, or carries a same-line neighbour".into()
    }
    fn assumptions(&self) -> Vec<String> {
        vec![
            "the reference model covers the line language only; string literals appear solely as rejected same-line neighbours (their trailing trivia is emitted twice by the preprocessor, a C06 matter)".into(),
            "under ignore_include the same-line rule is not generated (the statement leaves it open)".into(),
            "Vfs semantics approximate POSIX for the modelled errors; hooks faithful".into(),
        ]
    }
    fn required_probes(&self) -> Vec<&'static str> {
        vec![
            "resolved_via_search_dir",
            "resolved_via_cwd",
            "several_copies",
            "found_nowhere",
            "absolute_name",
            "macro_named_include",
            "macro_body_include",
            "ignore_include_runs",
            "include_line_expected",
            "same_line_ok_neighbour",
            "dead_branch_include",
            "defines_flow_out",
        ]
    }

    fn generate(&self, seed: u64, run: u64, tier: &str) -> Scenario {
        let mut rng = Rng::new(run_seed(seed, "C10", run));
        let mut sc = Scenario::new("C10", seed, run, tier);
        let nfiles = 1 + rng.usize_below(6);
        let ndirs = 1 + rng.usize_below(3);
        let dirs: Vec<String> = (1..=ndirs).map(|i| format!("/inc{}", i)).collect();
        let mut order = dirs.clone();
        rng.shuffle(&mut order);
        let ignore = rng.chance(1, 6);
        let neighbours = !ignore && rng.chance(1, 3);
        let mut files: BTreeMap<String, Vec<Line>> = BTreeMap::new();
        {
            let predef = rng.chance(1, 3);
            let mut g = G { rng: &mut rng, nfiles, tokn: 0, predef };
            for fid in 0..nfiles {
                let n = 2 + g.rng.usize_below(5);
                let proto = g.body(fid, n, 2, neighbours);
                if fid == 0 {
                    files.insert("/w/top.sv".to_string(), instantiate(&proto, ""));
                    continue;
                }
                // physical copies: cwd, each search dir, sub-directory variants
                let mut places: Vec<(String, &str)> = vec![];
                if g.rng.chance(1, 4) {
                    places.push((format!("/w/f{}.svh", fid), "w"));
                }
                for (k, d) in dirs.iter().enumerate() {
                    if g.rng.chance(2, 5) {
                        places.push((format!("{}/f{}.svh", d, fid), ["a", "b", "c"][k]));
                    }
                    if g.rng.chance(1, 8) {
                        places.push((format!("{}/sub/f{}.svh", d, fid), ["sa", "sb", "sc"][k]));
                    }
                }
                if g.rng.chance(1, 10) {
                    places.push((format!("/w/sub/f{}.svh", fid), "sw"));
                }
                for (p, tag) in places {
                    files.insert(p, instantiate(&proto, tag));
                }
            }
        }
        sc.expect = json!({ "files": {} });
        set_files(&mut sc, &files);
        for d in &dirs {
            sc.vfs.push(VNode::Dir { path: d.clone() });
        }
        let mut c = Call::new(if rng.chance(1, 5) { Api::PreprocessStr } else { Api::Preprocess }, "top.sv");
        c.include_paths = order;
        if rng.chance(1, 8) {
            c.include_paths[0].push('/');
        }
        c.ignore_include = ignore;
        // comments are not tokens: the model is the same with and without strip_comments
        c.strip_comments = rng.chance(1, 3);
        c.hash_seed = rng.next();
        for _ in 0..rng.below(3) {
            let name = if rng.coin() { format!("M{}", rng.below(5)) } else { format!("G{}", rng.below(4)) };
            let with_body = name.starts_with('M');
            c.defines.push(DefineSpec {
                name: name.clone(),
                has_value: with_body || rng.coin(),
                args: vec![],
                text: if with_body { Some(format!("v_pre_{}", name)) } else { None },
            });
        }
        // faults on the resolution conversation
        if rng.chance(1, 3) {
            let paths: Vec<String> = files.keys().filter(|p| p.as_str() != "/w/top.sv").cloned().collect();
            if !paths.is_empty() {
                let p = rng.pick(&paths).clone();
                let kind = match rng.below(6) {
                    0 => FaultKind::ToctouVanish,
                    1 => FaultKind::ToctouAppear,
                    2 => FaultKind::Enoent,
                    3 => FaultKind::Eacces,
                    4 => FaultKind::InvalidUtf8Tail,
                    _ => FaultKind::ToctouVanish,
                };
                let nth = if rng.coin() { Some(rng.below(2) as u32) } else { None };
                c.faults.push(Fault { path: p, nth, kind });
            }
        }
        let mut ops = vec![Op::Call(c.clone())];
        if rng.chance(1, 4) {
            // a second call in the same process: other order / subset of search directories, other flags
            let mut c2 = c.clone();
            rng.shuffle(&mut c2.include_paths);
            if c2.include_paths.len() > 1 && rng.coin() {
                c2.include_paths.pop();
            }
            if !neighbours && rng.chance(1, 3) {
                c2.ignore_include = !c2.ignore_include;
            }
            c2.api = Api::Preprocess;
            c2.faults.clear();
            ops.push(Op::Call(c2));
        }
        sc.threads = vec![ops];
        sc.family = if ignore { "ignore_include".into() } else if neighbours { "neighbours".into() } else { "graph".into() };
        sc
    }

    fn valid(&self, sc: &Scenario) -> bool {
        // the file system must hold exactly the structured form
        let files = files_of(sc);
        if !files.contains_key("/w/top.sv") || sc.calls().count() < 1 || sc.threads.len() != 1 {
            return false;
        }
        let mut n = 0;
        for node in &sc.vfs {
            if let VNode::File { path, bytes } = node {
                n += 1;
                let mut t = String::new();
                match files.get(path) {
                    Some(l) => render(l, &mut t),
                    None => return false,
                }
                if bytes.to_vec() != t.as_bytes() {
                    return false;
                }
            }
        }
        n == files.len() && sc.calls().all(|c| c.text.is_none() && c.path == "top.sv")
    }

    fn shrink(&self, sc: &Scenario) -> Vec<Scenario> {
        let files = files_of(sc);
        let mut out = vec![];
        for p in files.keys() {
            if p != "/w/top.sv" {
                let mut f = files.clone();
                f.remove(p);
                let mut c = sc.clone();
                set_files(&mut c, &f);
                out.push(c);
            }
        }
        for (p, lines) in &files {
            for v in drop_line_variants(lines) {
                let mut f = files.clone();
                f.insert(p.clone(), v);
                let mut c = sc.clone();
                set_files(&mut c, &f);
                out.push(c);
            }
        }
        // fewer search directories
        if let Some(Op::Call(call)) = sc.threads[0].first() {
            for i in 0..call.include_paths.len() {
                let mut c = sc.clone();
                if let Op::Call(cc) = &mut c.threads[0][0] {
                    cc.include_paths.remove(i);
                }
                out.push(c);
            }
        }
        out
    }

    fn check(&self, sc: &Scenario) -> RunReport {
        let mut rep = RunReport::default();
        if !self.valid(sc) {
            rep.harness_error = Some("scenario outside the C10 line language".into());
            return rep;
        }
        let files = files_of(sc);
        // ---- implementation: all calls of the scenario on one thread of one process
        let out = exec(sc, &ExecOpts::default());
        rep.execs += 1;
        rep.steps += out.steps;
        rep.fire(&out.fired);
        if let Some(e) = &out.harness_error {
            rep.harness_error = Some(e.clone());
            return rep;
        }
        let calls: Vec<(usize, Call)> = sc.threads[0]
            .iter()
            .enumerate()
            .filter_map(|(i, op)| match op {
                Op::Call(c) => Some((i, c.clone())),
                _ => None,
            })
            .collect();
        if calls.len() > 1 {
            rep.probe("two_calls_one_process", 1);
        }
        for (k, (idx, call)) in calls.iter().enumerate() {
            let o = match out.call(0, *idx) {
                Some(o) => o.clone(),
                None => {
                    rep.harness_error = Some("no outcome".into());
                    return rep;
                }
            };
            let events: Vec<Event> = out.log.iter().filter(|e| e.call == *idx).cloned().collect();
            self.judge(sc, &files, call, k, *idx, &o, &events, &mut rep);
        }
        rep.distinct_key = sc.hash();
        rep
    }
}

impl C10 {
    /// each call is judged on its own: the model starts from the call's arguments and a pristine conversation
    #[allow(clippy::too_many_arguments)]
    fn judge(&self, sc: &Scenario, files: &BTreeMap<String, Vec<Line>>, call: &Call, k: usize, idx: usize, o: &crate::exec::CallOutcome, events: &[Event], rep: &mut RunReport) {
        let call = call.clone();
        let o = o.clone();
        // ---- model, against a twin file system with the same fault plan
        let twin = Arc::new(Vfs::new(&sc.cwd, &sc.vfs, sc.knobs.open_budget));
        twin.begin_call(0, idx, &call.faults);
        let mut table: Table = BTreeMap::new();
        reinstall_predefined(&mut table);
        for d in &call.defines {
            table.insert(d.name.clone(), if d.has_value { d.text.clone() } else { None });
        }
        let mut m = Model {
            vfs: twin.clone(),
            files,
            include_paths: call.include_paths.clone(),
            ignore_include: call.ignore_include,
            cwd: sc.cwd.clone(),
            out: vec![],
            depth: 1,
        };
        let mres = if call.api == Api::Preprocess {
            m.file(&call.path, &mut table)
        } else {
            m.depth = 0;
            let top = files.get("/w/top.sv").cloned().unwrap_or_default();
            m.lines(&top, &mut table)
        };
        if let Err(e) = &mres {
            fn unmodelled(e: &MErr) -> Option<String> {
                match e {
                    MErr::Unmodelled(s) => Some(s.clone()),
                    MErr::Include(i) => unmodelled(i),
                    _ => None,
                }
            }
            if let Some(s) = unmodelled(e) {
                // the generator left the modelled language: a harness matter, never a verdict
                rep.probe("unmodelled_skipped", 1);
                let _ = s;
                return;
            }
        }
        let mlog = log_view(&twin.log());
        let ilog = log_view(events);
        let model_tokens = m.out.clone();
        let fail = |rep: &mut RunReport, clause: &str, kind: &str, expected: String, observed: String, detail: String| {
            if rep.violations.is_empty() {
                rep.violations.push(Violation {
                    property: "C10".into(),
                    clause: clause.into(),
                    kind: kind.into(),
                    thread: 0,
                    call: idx,
                    expected,
                    observed,
                    detail,
                });
            }
        };
        if let Some(p) = &o.panic {
            fail(rep, "C10.returns", "panic", "Ok or Err".into(), format!("PANIC {}", p), "the call panicked".into());
        } else if o.budget_exceeded {
            fail(rep, "C10.returns", "budget-exhausted", "termination".into(), "budget".into(), "step budget exhausted".into());
        } else if let Some(d) = &o.digest {
            match (&mres, d.is_ok()) {
                (Ok(()), true) => {
                    let text = d.text.clone().unwrap_or_default();
                    let toks = tokens_of(&text);
                    if toks != model_tokens {
                        let i = (0..toks.len().max(model_tokens.len())).find(|i| toks.get(*i) != model_tokens.get(*i)).unwrap_or(0);
                        fail(
                            rep,
                            "C10.spliced_tokens",
                            "model-mismatch",
                            format!("token #{} = {:?} of {:?}", i, model_tokens.get(i), model_tokens),
                            format!("token #{} = {:?} of {:?}", i, toks.get(i), toks),
                            "the marker/body tokens of the output differ from the reference model".into(),
                        );
                    }
                    // (3) define table, SV_COV_* aside
                    let got: Table = d
                        .defines
                        .clone()
                        .unwrap_or_default()
                        .into_iter()
                        .filter(|(k, _)| !k.starts_with("SV_COV_"))
                        .map(|(k, v)| (k, v.map(|b| b.trim().to_string())))
                        .collect();
                    let want: Table = table.iter().filter(|(k, _)| !k.starts_with("SV_COV_")).map(|(k, v)| (k.clone(), v.clone())).collect();
                    if got != want {
                        fail(
                            rep,
                            "C10.defines_flow",
                            "model-mismatch",
                            format!("{:?}", want),
                            format!("{:?}", got),
                            "the returned define table differs from the reference model".into(),
                        );
                    }
                }
                (Err(me), false) => {
                    let got = d.err.clone().unwrap_or_default();
                    let want = me.render();
                    if got != want {
                        let clause = if got.contains("IncludeLine") && !want.contains("IncludeLine") {
                            "C10.include_line_false_reject"
                        } else if want.contains("IncludeLine") && !got.contains("IncludeLine") {
                            "C10.include_line_false_accept"
                        } else {
                            "C10.error_value"
                        };
                        fail(
                            rep,
                            clause,
                            "wrong-error-shape",
                            want,
                            got,
                            "the error differs from the one the statement prescribes".into(),
                        );
                    }
                }
                (Ok(()), false) => fail(
                    rep,
                    if d.err.as_deref().map(|e| e.contains("IncludeLine")).unwrap_or(false) { "C10.include_line_false_reject" } else { "C10.error_value" },
                    "wrong-error-shape",
                    format!("Ok with tokens {:?}", model_tokens),
                    d.err.clone().unwrap_or_default(),
                    "rejected although the reference model accepts".into(),
                ),
                (Err(me), true) => fail(
                    rep,
                    if me.render().contains("IncludeLine") { "C10.include_line_false_accept" } else { "C10.error_value" },
                    "wrong-error-shape",
                    me.render(),
                    format!("Ok with tokens {:?}", tokens_of(&d.text.clone().unwrap_or_default())),
                    "accepted although the reference model rejects".into(),
                ),
            }
            // conversation with the file system (reported when the results themselves agree)
            if mlog != ilog {
                // The statement fixes WHICH file is used and that nothing is read where nothing should be;
                // it does not fix the order or number of existence probes. So: every open must be the
                // model's open, in order; every probe must be of a path the resolution rule looks at for a
                // name this call resolves; a mere difference in probe order / multiplicity is accepted.
                let i = (0..mlog.len().max(ilog.len())).find(|i| mlog.get(*i) != ilog.get(*i)).unwrap_or(0);
                let opens = |l: &[String]| -> Vec<String> { l.iter().filter(|e| e.starts_with("open ") || e.starts_with("read ")).cloned().collect() };
                let probed: std::collections::BTreeSet<String> = mlog
                    .iter()
                    .filter(|e| e.starts_with("exists ") || e.starts_with("open "))
                    .filter_map(|e| e.split(' ').nth(1).map(|p| p.to_string()))
                    .collect();
                let stray = ilog
                    .iter()
                    .filter(|e| e.starts_with("exists ") || e.starts_with("open "))
                    .find(|e| e.split(' ').nth(1).map(|p| !probed.contains(p)).unwrap_or(false));
                let toctou = call.faults.iter().any(|f| matches!(f.kind, FaultKind::ToctouVanish | FaultKind::ToctouAppear));
                let clause = if call.ignore_include { "C10.ignore_include_reads_nothing" } else { "C10.resolution_protocol" };
                if let Some(e) = stray {
                    fail(
                        rep,
                        clause,
                        "io-monitor",
                        "only paths the resolution rule looks at for the names this call resolves".into(),
                        e.clone(),
                        format!("the library touched a path the rule never looks at (first differing op #{}: model `{}`)", i, mlog.get(i).cloned().unwrap_or_else(|| "<no further operation>".into())),
                    );
                } else if opens(&mlog) != opens(&ilog) {
                    if toctou && mlog.iter().filter(|e| e.starts_with("exists ")).ne(ilog.iter().filter(|e| e.starts_with("exists "))) {
                        // a different (legal) probe sequence met the injected race differently: cannot be judged
                        rep.probe("unjudged_probe_order_under_toctou", 1);
                    } else {
                        fail(
                            rep,
                            clause,
                            "io-monitor",
                            format!("op #{}: {}", i, mlog.get(i).cloned().unwrap_or_else(|| "<no further operation>".into())),
                            format!("op #{}: {}", i, ilog.get(i).cloned().unwrap_or_else(|| "<no further operation>".into())),
                            format!("the files opened differ from the resolution rule (model {} ops, library {} ops)", mlog.len(), ilog.len()),
                        );
                    }
                } else {
                    rep.probe("probe_order_differs_only", 1);
                }
            }
        }
        // ---- reach probes
        let tlog = twin.log();
        for w in tlog.windows(2) {
            if w[0].op == "exists" && w[0].answer == Answer::True && w[1].op == "open" {
                if w[0].raw_path.starts_with('/') {
                    rep.probe("resolved_via_search_dir", 1);
                } else {
                    rep.probe("resolved_via_cwd", 1);
                }
            }
        }
        let mut by_name: BTreeMap<String, usize> = BTreeMap::new();
        for p in files.keys() {
            *by_name.entry(p.rsplit('/').next().unwrap_or("").to_string()).or_insert(0) += 1;
        }
        if by_name.values().any(|n| *n > 1) {
            rep.probe("several_copies", 1);
        }
        if tlog.iter().any(|e| e.op == "open" && matches!(e.answer, Answer::Err(_)) && !e.raw_path.starts_with('/')) {
            rep.probe("found_nowhere", 1);
        }
        let mut has_abs = false;
        fn walk(lines: &[Line], f: &mut dyn FnMut(&Line)) {
            for l in lines {
                f(l);
                if let Line::If { then, elsifs, els, .. } = l {
                    walk(then, f);
                    for (_, ls) in elsifs {
                        walk(ls, f);
                    }
                    if let Some(ls) = els {
                        walk(ls, f);
                    }
                }
            }
        }
        let mut has_macro_named = false;
        let mut has_macro_body = false;
        let mut has_ok_neighbour = false;
        let mut includes_in_if = false;
        for l in files.values() {
            walk(l, &mut |x| match x {
                Line::Include { syntax, pre, post, name, .. } => {
                    if *syntax == 2 {
                        has_macro_named = true;
                    }
                    if name.starts_with('/') {
                        has_abs = true;
                    }
                    if (*pre != 0 && !PRE_ERR.contains(pre)) || (*post != 0 && !POST_ERR.contains(post)) {
                        has_ok_neighbour = true;
                    }
                }
                Line::UsageInc { .. } => has_macro_body = true,
                Line::If { then, elsifs, els, .. } => {
                    let mut any = false;
                    let mut chk = |ls: &Vec<Line>| {
                        if ls.iter().any(|l| matches!(l, Line::Include { .. } | Line::UsageInc { .. })) {
                            any = true;
                        }
                    };
                    chk(then);
                    for (_, ls) in elsifs {
                        chk(ls);
                    }
                    if let Some(ls) = els {
                        chk(ls);
                    }
                    if any {
                        includes_in_if = true;
                    }
                }
                _ => {}
            });
        }
        if has_abs {
            rep.probe("absolute_name", 1);
        }
        if has_macro_named {
            rep.probe("macro_named_include", 1);
        }
        if has_macro_body {
            rep.probe("macro_body_include", 1);
        }
        if has_ok_neighbour {
            rep.probe("same_line_ok_neighbour", 1);
        }
        if includes_in_if {
            rep.probe("dead_branch_include", 1);
        }
        if call.ignore_include {
            rep.probe("ignore_include_runs", 1);
        }
        if call.strip_comments {
            rep.probe("strip_comments_runs", 1);
        }
        match &mres {
            Err(MErr::IncludeLine) => rep.probe("include_line_expected", 1),
            Err(e) if e.render().contains("IncludeLine") => rep.probe("include_line_expected", 1),
            Err(_) => rep.probe("model_err", 1),
            Ok(()) => {
                rep.probe("model_ok", 1);
                if table.values().any(|v| v.as_ref().map(|b| b.contains("_f") && !b.contains("_f0")).unwrap_or(false)) {
                    rep.probe("defines_flow_out", 1);
                }
            }
        }
        let faulted = !rep.fired.is_empty();
        if tlog.iter().any(|e| e.op == "exists") || faulted || has_ok_neighbour || matches!(mres, Err(_)) {
            rep.nontrivial = true;
        }
        if k == 0 {
            rep.sample = Some(json!({
                "files": sc.vfs.iter().filter_map(|n| match n { VNode::File { path, bytes: Bytes::Text(t) } => Some(json!({"path": path, "text": t})), _ => None }).take(6).collect::<Vec<_>>(),
                "call": describe_call(&call),
                "model": match &mres { Ok(()) => json!({"tokens": model_tokens}), Err(e) => json!({"error": e.render()}) },
                "library": o.short(),
                "conversation": ilog.iter().take(12).collect::<Vec<_>>(),
            }));
        }
    }
}
