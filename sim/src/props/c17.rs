//! C17 — the packrat memo table is a pure optimisation.

use super::common::*;
use crate::exec::{exec, CallOutcome, ExecOpts};
use crate::gen;
use crate::prop::{Property, RunReport};
use crate::rng::{run_seed, Rng};
use crate::scenario::*;
use serde_json::json;

pub struct C17;

pub const KNOWN_ID: &str = "memo-key-omits-recursion-flags";
pub const KNOWN_ID_KW: &str = "memoised-keyword-directive-replay";

/// the same text with every `begin_keywords "..." and `end_keywords blanked out (same length)
fn neutralise_keyword_directives(t: &str) -> String {
    let mut out = t.to_string();
    for pat in ["`begin_keywords", "`end_keywords"] {
        let mut from = 0;
        while let Some(i) = out[from..].find(pat) {
            let start = from + i;
            let mut end = start + pat.len();
            if pat == "`begin_keywords" {
                // up to and including the closing quote of the version specifier
                let rest = &out[end..];
                if let Some(q1) = rest.find('"') {
                    if let Some(q2) = rest[q1 + 1..].find('"') {
                        end += q1 + 1 + q2 + 1;
                    }
                }
            }
            let blanks = " ".repeat(end - start);
            out.replace_range(start..end, &blanks);
            from = end;
        }
    }
    out
}
const CAPS: &[usize] = &[1, 2, 3, 5, 8, 16, 64, 256, 4096, 0];
const MAX_REF_STEPS: u64 = 6000;
const FLAG_AWARE_BUDGET: u64 = 3_000_000;
const MAX_DISCRIMINATED: usize = 4;

/// the diverging capacity first, then the ladder around it (re-keyed tables hold more entries per position, so the
/// band of a capacity-limited defect moves up rather than down)
fn scan_caps(c: usize) -> Vec<usize> {
    let mut out = vec![c];
    if c == 0 || c > 4096 {
        return out;
    }
    for (n, d) in [(1usize, 2usize), (3, 4), (3, 2), (2, 1), (3, 1), (4, 1), (6, 1), (8, 1), (12, 1), (16, 1)] {
        let x = (c * n / d).max(1);
        if x <= 16384 && !out.contains(&x) {
            out.push(x);
        }
    }
    out
}

fn run_one(sc: &Scenario, call: &Call, budget: u64) -> Result<(CallOutcome, u64), String> {
    let mut one = sc.clone();
    one.threads = vec![vec![Op::Call(call.clone())]];
    if let Ok(mut pre) = serde_json::from_value::<Call>(sc.expect["pre"].clone()) {
        // the earlier parse runs under the same memo configuration, on the same thread
        pre.memo_capacity = call.memo_capacity;
        pre.flag_aware = call.flag_aware;
        one.threads = vec![vec![Op::Call(pre), Op::Call(call.clone())]];
    }
    one.schedule = Schedule::Solo;
    one.knobs.step_budget = budget;
    let out = exec(&one, &ExecOpts::default());
    if let Some(e) = out.harness_error {
        return Err(e);
    }
    let steps = out.steps;
    out.calls.into_iter().last().map(|o| (o, steps)).ok_or_else(|| "no outcome".to_string())
}

fn accept(o: &CallOutcome) -> Option<u64> {
    if o.budget_exceeded {
        return None;
    }
    if o.panic.is_some() {
        return Some(0xDEAD);
    }
    o.digest.as_ref().map(|d| d.accept_hash)
}

fn with_text(c: &Call, t: &str) -> Call {
    let mut c = c.clone();
    c.text = Some(t.to_string());
    c
}

impl C17 {
    /// in-process line shrink of the input while (reference, other) still disagree in shipped key mode
    fn shrink_pair(&self, sc: &Scenario, reference: &Call, other: &Call, rep: &mut RunReport) -> String {
        let mut text = reference.text.clone().unwrap_or_default();
        let mut evals = 0;
        let diverges = |t: &str, rep: &mut RunReport, evals: &mut u32| -> bool {
            *evals += 1;
            let a = run_one(sc, &with_text(reference, t), 400_000);
            let b = run_one(sc, &with_text(other, t), 400_000);
            rep.execs += 2;
            match (a, b) {
                (Ok((a, _)), Ok((b, _))) => match (accept(&a), accept(&b)) {
                    (Some(x), Some(y)) => x != y,
                    _ => false,
                },
                _ => false,
            }
        };
        'outer: loop {
            let lines: Vec<&str> = text.split_inclusive('\n').collect();
            let n = lines.len();
            let mut chunk = (n / 2).max(1);
            loop {
                let mut i = 0;
                while i < n {
                    if evals > 160 {
                        break 'outer;
                    }
                    let mut v: Vec<&str> = vec![];
                    v.extend_from_slice(&lines[..i]);
                    if i + chunk < n {
                        v.extend_from_slice(&lines[i + chunk..]);
                    }
                    let cand = v.concat();
                    if cand.len() < text.len() && diverges(&cand, rep, &mut evals) {
                        text = cand;
                        continue 'outer;
                    }
                    i += chunk;
                }
                if chunk == 1 {
                    break 'outer;
                }
                chunk /= 2;
            }
        }
        text
    }
}

impl Property for C17 {
    fn id(&self) -> &'static str {
        "C17"
    }
    fn level(&self) -> &'static str {
        "exploration"
    }
    fn runs(&self, tier: &str) -> u64 {
        if tier == "thorough" {
            12_000
        } else {
            1_200
        }
    }
    fn time_cap_s(&self, tier: &str) -> u64 {
        if tier == "thorough" {
            1500
        } else {
            170
        }
    }
    fn rule(&self) -> String {
        format!("one run = one input (repo spec snippet, generated program, netlist, pragma / protected-envelope lines, keyword-region / kept-directive polluter, library map; accepted and rejected; optionally with state-carrying trivia injected at token boundaries, a non-ANSI header, near-valid punctuation edits, an earlier parse on the same thread) through one parser entry (raw sv/lib/pp parsers strict and incomplete, parse_sv_str, parse_lib_str), executed once per memo capacity in {{declared 1024, {:?} (0 = unbounded), four random; one run in six dense: ~60 capacities, four per octave up to 8192}} - only capacities fixed for a whole call, each in a fresh process. Oracle: accept/reject and the tree (not the error position) equal the declared-capacity result. Every execution has a step budget (40x the reference + 20000); exhausting it is counted, not judged. Every diverging capacity (up to 4 per run) is shrunk and discriminated: re-run with a flag-aware memo key (verification fork of nom-packrat keys additionally on the left-recursion flags in force) at that capacity and on a ladder x0.5..x16 around it - if it vanishes on every rung it is attributed to the listed finding '{}'; if it persists, the keyword-stack finding must be confirmed by one of its two routes (region push seen + keyword directives blanked out; leaked entries + keyword set frozen), still with the flag-aware key, else it is a violation. distinct = hash(input, entry); non-trivial iff some capacity evicted and later missed on an evicted key", CAPS, KNOWN_ID)
    }
    fn assumptions(&self) -> Vec<String> {
        vec![
            "the memo is instrumented in a fork of nom-packrat 0.7.0 vendored under /verif/sim/vendor (capacity override, counters, optional flag-aware key); with no knob turned it is the upstream code".into(),
            "only FIFO tables of a fixed capacity are explored, never a mid-parse purge".into(),
            "the known-finding discriminators are interventions on the memo (flag-aware key on a capacity ladder; keyword directives blanked out; keyword set frozen) and change which entries are resident: a residency-dependent defect in expression-heavy input can vanish with them and be attributed to the recursion-flag finding (seeded change C17-r6b is observed and then attributed; DESIGN.md section 13)".into(),
            "inputs are bounded to 6000 steps at the declared capacity; a divergence whose flag-aware discriminator exhausts its budget is reported as unattributed and does not fail the check".into(),
        ]
    }
    fn required_probes(&self) -> Vec<&'static str> {
        vec!["evictions", "misses_after_evict", "capacity_execs", "inputs_accepted", "inputs_rejected"]
    }

    fn generate(&self, seed: u64, run: u64, tier: &str) -> Scenario {
        let mut rng = Rng::new(run_seed(seed, "C17", run));
        let mut sc = Scenario::new("C17", seed, run, tier);
        // the repo's own snippets are walked systematically (run index -> snippet), so that a thorough batch
        // covers every one of them several times; the other inputs are drawn
        let n_corpus = gen::corpus_sv_count();
        let systematic = gen::corpus_sv_nth((run as usize).wrapping_mul(7919).wrapping_add(seed as usize) % n_corpus.max(1), 1400);
        let (mut text, lib) = match rng.below(15) {
            14 => {
                // pragmas with their expression lists broken over lines, between ordinary items
                let mut t = String::from(if rng.coin() { "module m;\n" } else { "module m(zz_p);\n" });
                let nonansi = t.contains("zz_p");
                for i in 0..1 + rng.below(3) {
                    if rng.chance(1, 3) {
                        t.push_str(&gen::pragma_continuation(&mut rng));
                    } else {
                        t.push_str(&gen::pragma_lines(&mut rng));
                    }
                    t.push_str(&format!("  logic b{};\n", i));
                }
                if nonansi {
                    t.push_str("  input zz_p;\n");
                }
                t.push_str("endmodule\n");
                (t, false)
            }
            12 | 13 => (gen::netlist_program(&mut rng), false),
            0..=5 => (systematic.map(|s| s.to_string()).unwrap_or_else(|| gen::corpus_sv(&mut rng, 1400).to_string()), false),
            6 | 7 => {
                let k = 1 + rng.usize_below(4);
                (gen::sv_program(&mut rng, k), false)
            }
            8 => (gen::polluter(&mut rng), false),
            9 => (format!("{}{}", gen::polluter(&mut rng), gen::sensitive_probe(&mut rng)), false),
            10 => (gen::corpus_lib(&mut rng).to_string(), true),
            _ => (gen::lib_program(&mut rng), true),
        };
        // dense family: one input at many capacities (a defect that needs "entry A evicted, entry B still there" shows
        // only in a band of capacities whose place depends on the input), with state-carrying trivia after the header
        let dense = rng.chance(1, 6);
        if !lib && (dense || rng.chance(1, 3)) {
            let after = match if dense { if rng.coin() { 4 } else { rng.below(5) } } else { rng.below(8) } {
                0 => gen::pragma_lines(&mut rng),
                1 => "`pragma protect begin_protected\n  wire env;\n`pragma protect end_protected\n".to_string(),
                2 => "/* after header */\n".to_string(),
                3 => "`timescale 1ns/1ps\n".to_string(),
                4 | 5 => gen::protected_envelope(&mut rng),
                _ => String::new(),
            };
            if after.contains("`pragma") && rng.coin() {
                // a further pragma later in the module
                if let Some(i) = text.rfind("endmodule") {
                    text.insert_str(i, if rng.coin() { "`pragma reset protect\n  wire after_reset;\n" } else { "`pragma foo\n" });
                }
            }
            text = if dense && rng.coin() { gen::rewrap_nonansi_early(&text, &after) } else { gen::rewrap_nonansi_with(&text, &after) };
            if !dense && rng.chance(1, 4) {
                // near-valid headers: what the (failing) ANSI attempt tolerates and memoises, the non-ANSI attempt may replay
                if let Some(rest) = text.strip_prefix("module m(zz_p);") {
                    let head = *rng.pick(&["module m(zz_p,);", "module m #(parameter ZP = 1,) (zz_p);", "module m #(parameter ZP = 1) (zz_p,);", "module m #(ZP = 1,) (zz_p);"]);
                    text = format!("{}{}", head, rest);
                }
            }
        }
        if rng.chance(1, 4) {
            // near-valid: what one alternative tolerates and memoises, another may replay
            text = gen::punct_edit(&mut rng, &text);
        }
        if !lib && rng.chance(1, 3) {
            // state-carrying trivia at arbitrary token boundaries: memoised side effects are skipped on a hit
            text = gen::inject_directives(&mut rng, &text);
        }
        let api = if lib {
            *rng.pick(&[Api::RawLib, Api::RawLibIncomplete, Api::ParseLibStr])
        } else {
            *rng.pick(&[Api::RawSv, Api::RawSv, Api::RawSvIncomplete, Api::ParseSvStr, Api::ParseSvStr, Api::RawPp])
        };
        let mut base = Call::new(api, "t.sv");
        base.text = Some(text);
        base.allow_incomplete = rng.chance(1, 4);
        if api.is_raw() && rng.chance(1, 4) {
            // "which entries survive": an earlier parse on the same thread, on the adjacent slice of the same
            // buffer (or on the same address), must not matter at any capacity
            let first = if rng.coin() { gen::corpus_sv(&mut rng, 600).to_string() } else { gen::sensitive_probe(&mut rng) };
            let mut pre = Call::new(api, "t.sv");
            pre.text = Some(first.clone());
            pre.slot = Some(0);
            base.slot = Some(0);
            base.slot_off = if rng.coin() { first.len() } else { 0 };
            sc.expect = serde_json::json!({ "pre": pre });
            sc.family = format!("{}+earlier-parse", api.name());
        }
        let mut ops = vec![Op::Call(base.clone())];
        let mut caps: Vec<usize> = CAPS.to_vec();
        caps.push(1 + rng.usize_below(40));
        caps.push(1 + rng.usize_below(2048));
        caps.push(17 + rng.usize_below(500));
        caps.push(300 + rng.usize_below(1200));
        if dense {
            // log-uniform over 1..8192: 4 draws per octave
            for k in 0..13u32 {
                for _ in 0..4 {
                    let c = (1usize << k) + rng.usize_below(1usize << k);
                    if !caps.contains(&c) {
                        caps.push(c);
                    }
                }
            }
            sc.family = format!("{}dense-capacities", if sc.family.is_empty() { String::new() } else { format!("{}+", sc.family) });
        }
        for c in caps {
            let mut k = base.clone();
            k.memo_capacity = Some(c);
            ops.push(Op::Call(k));
        }
        sc.threads = vec![ops];
        if sc.family.is_empty() {
            sc.family = api.name().to_string();
        }
        sc
    }

    fn valid(&self, sc: &Scenario) -> bool {
        let calls: Vec<&Call> = sc.calls().collect();
        calls.len() >= 2
            && calls.iter().all(|c| c.text.is_some() && !c.flag_aware)
            && calls.windows(2).all(|w| w[0].text == w[1].text && w[0].api == w[1].api && w[0].allow_incomplete == w[1].allow_incomplete && w[0].slot == w[1].slot && w[0].slot_off == w[1].slot_off)
    }

    fn shrink(&self, sc: &Scenario) -> Vec<Scenario> {
        // shrink the text of all calls together
        let mut out = vec![];
        let text = match sc.calls().next().and_then(|c| c.text.clone()) {
            Some(t) => t,
            None => return out,
        };
        let lines: Vec<&str> = text.split_inclusive('\n').collect();
        for i in 0..lines.len() {
            let mut v = lines.clone();
            v.remove(i);
            let t = v.concat();
            let mut c = sc.clone();
            for op in c.threads[0].iter_mut() {
                if let Op::Call(call) = op {
                    call.text = Some(t.clone());
                }
            }
            out.push(c);
        }
        out
    }

    fn check(&self, sc: &Scenario) -> RunReport {
        let mut rep = RunReport::default();
        if !self.valid(sc) {
            rep.harness_error = Some("scenario outside the domain of C17 (calls must share input and entry)".into());
            return rep;
        }
        let calls: Vec<Call> = sc.calls().cloned().collect();
        let reference = &calls[0];
        let (ref_out, ref_steps) = match run_one(sc, reference, 4_000_000) {
            Ok(x) => x,
            Err(e) => {
                rep.harness_error = Some(e);
                return rep;
            }
        };
        rep.execs += 1;
        rep.steps += ref_steps;
        rep.distinct_key = crate::rng::fnv(format!("{:?}|{:?}", reference.api, reference.text).as_bytes());
        if ref_steps > MAX_REF_STEPS || ref_out.budget_exceeded {
            rep.probe("input_too_large_skipped", 1);
            return rep;
        }
        let ref_accept = accept(&ref_out);
        match &ref_out.digest {
            Some(d) if d.is_ok() => rep.probe("inputs_accepted", 1),
            _ => rep.probe("inputs_rejected", 1),
        }
        let budget = 40 * ref_steps + 20_000;
        let mut evicted_and_missed = false;
        let mut discriminated = 0usize;
        for (i, c) in calls.iter().enumerate().skip(1) {
            let (o, steps) = match run_one(sc, c, budget) {
                Ok(x) => x,
                Err(e) => {
                    rep.harness_error = Some(e);
                    return rep;
                }
            };
            rep.execs += 1;
            rep.steps += steps;
            rep.probe("capacity_execs", 1);
            rep.probe("evictions", o.memo.evictions);
            rep.probe("misses_after_evict", o.memo.misses_after_evict);
            rep.probe("memo_hits", o.memo.hits);
            rep.probe("memo_misses", o.memo.misses);
            if o.memo.evictions > 0 && o.memo.misses_after_evict > 0 {
                evicted_and_missed = true;
            }
            if o.budget_exceeded {
                rep.probe("budget_skipped", 1);
                continue;
            }
            if accept(&o) == ref_accept {
                continue;
            }
            rep.probe("divergences_shipped_key", 1);
            // every diverging capacity is discriminated on its own (up to MAX_DISCRIMINATED per run): a change that
            // breaks the property usually diverges at several capacities, and one of them matching a listed finding
            // must not excuse the others
            if !rep.violations.is_empty() || discriminated >= MAX_DISCRIMINATED {
                continue;
            }
            discriminated += 1;
            // ---- a divergence: shrink, then discriminate with the flag-aware key
            let small = self.shrink_pair(sc, reference, c, &mut rep);
            let r2 = with_text(reference, &small);
            let c2 = with_text(c, &small);
            let (a, b) = match (run_one(sc, &r2, 400_000), run_one(sc, &c2, 400_000)) {
                (Ok((a, _)), Ok((b, _))) => (a, b),
                _ => continue,
            };
            rep.execs += 2;
            let mut v = mismatch(
                "C17",
                "C17.capacity_independent",
                0,
                i,
                &a,
                &b,
                &format!(
                    "{} with memo capacity {} differs from capacity {}",
                    c.api.name(),
                    c.memo_capacity.map(|x| if x == 0 { "unbounded".to_string() } else { x.to_string() }).unwrap_or_else(|| "1024 (declared)".into()),
                    reference.memo_capacity.map(|x| x.to_string()).unwrap_or_else(|| "1024 (declared)".into())
                ),
            );
            v.kind = "digest-mismatch".into();
            let mut frozen = sc.clone();
            frozen.threads = vec![vec![Op::Call(r2.clone()), Op::Call(c2.clone())]];
            // ---- first discriminator: the flag-aware key (vendored fork): the table is keyed additionally on the
            // left-recursion flags in force. Re-keying shifts the eviction pattern, so a defect that shows only in a
            // band of capacities could vanish at the diverging capacity for no causal reason; therefore the re-keyed
            // table is run at the diverging capacity AND at a ladder of capacities around it (x0.5 .. x16), and the
            // divergence counts as explained by the recursion-flag finding only if the re-keyed table agrees with the
            // re-keyed declared capacity at every rung that finishes within its budget.
            // (A second intervention was tried - shipped key, but hits on entries stored under other flags recomputed -
            // and dropped: it does not remove every divergence of this defect, e.g. a spec snippet with cross-bin select
            // expressions at capacity 416.)
            let fa = |k: &Call, cap: Option<usize>, text: &str, freeze: bool| -> Call {
                let mut k = with_text(k, text);
                k.flag_aware = true;
                k.freeze_version = freeze;
                if let Some(x) = cap {
                    k.memo_capacity = Some(x);
                }
                k
            };
            rep.execs += 1;
            let fa_ref = match run_one(sc, &fa(reference, None, &small, false), FLAG_AWARE_BUDGET) {
                Ok((o, s)) if accept(&o).is_some() => {
                    rep.steps += s;
                    o
                }
                _ => {
                    rep.probe("unattributed_discriminator_budget", 1);
                    continue;
                }
            };
            let ladder = scan_caps(c.memo_capacity.unwrap_or(1024));
            let mut persisting: Option<(usize, CallOutcome)> = None;
            let mut judged_at_c = false;
            for (k, cap) in ladder.iter().enumerate() {
                rep.execs += 1;
                if let Ok((o, s)) = run_one(sc, &fa(c, Some(*cap), &small, false), FLAG_AWARE_BUDGET) {
                    rep.steps += s;
                    if let Some(x) = accept(&o) {
                        if k == 0 {
                            judged_at_c = true;
                        }
                        rep.probe("flag_aware_rungs_judged", 1);
                        if Some(x) != accept(&fa_ref) {
                            persisting = Some((*cap, o));
                            break;
                        }
                    } else {
                        rep.probe("flag_aware_rungs_over_budget", 1);
                    }
                }
                if k == 0 && !judged_at_c {
                    break;
                }
            }
            if !judged_at_c {
                rep.probe("unattributed_discriminator_budget", 1);
                continue;
            }
            match persisting {
                None => {
                    v.detail = format!("{} [vanishes with a flag-aware memo key at the diverging capacity and on the capacity ladder around it: the key (parser, position, in_directive) omits the left-recursion flags carried in the span - impl HasExtraState<bool> for SpanInfo, sv-parser-parser/src/lib.rs]", v.detail);
                    rep.probe(&format!("finding1_at_capacity_{}", c.memo_capacity.map(|x| if x == 0 { "unbounded".to_string() } else if x > 4096 { "large".to_string() } else { x.to_string() }).unwrap_or_default()), 1);
                    rep.matched.push((KNOWN_ID.to_string(), v));
                    if rep.replay_scenario.is_none() {
                        rep.replay_scenario = Some(frozen);
                    }
                    if accept(&fa_ref) != accept(&a) {
                        rep.probe("flag_aware_differs_at_declared_capacity", 1);
                    }
                }
                Some((cap2, fo)) => {
                    if cap2 != c.memo_capacity.unwrap_or(1024) {
                        rep.probe("persists_only_on_ladder", 1);
                    }
                    // second discriminator, with the recursion-flag finding out of the picture (both runs keep the
                    // flag-aware key, at the capacity where the divergence persists): the keyword-version stack is
                    // parse-history state outside the memo key. Two routes of that listed finding, each with its own
                    // evidence and intervention:
                    //  (a) a `begin_keywords region: a region push was executed (hook probe) and the two capacities
                    //      agree once the keyword directives of the input are blanked out;
                    //  (b) entries leaked by a failed macro-name lexing (text_macro_usage / text_macro_definition
                    //      return through `?` between begin_keywords("directive") and end_keywords()): no region
                    //      push at all, the version stack is non-empty after the parse (hook probe), and the two
                    //      capacities agree when the keyword set in force is frozen to the default (hook knob).
                    //      The freeze is used only here: with directives in the input it changes how they lex.
                    let replay_div = b.kw_replayed_pushes + b.kw_replayed_effective_pops + fo.kw_replayed_pushes + fo.kw_replayed_effective_pops;
                    let replay_ref = a.kw_replayed_pushes + a.kw_replayed_effective_pops;
                    let region = fo.sites[4] + fa_ref.sites[4] > 0;
                    let leaked = fo.residue_after.1 + fa_ref.residue_after.1 > 0;
                    let neutral = neutralise_keyword_directives(&small);
                    let mut attributed = false;
                    let pair = if region && neutral != small {
                        Some((fa(reference, None, &neutral, false), fa(c, Some(cap2), &neutral, false)))
                    } else if !region && leaked {
                        Some((fa(reference, None, &small, true), fa(c, Some(cap2), &small, true)))
                    } else {
                        None
                    };
                    if let Some((f1, f2)) = pair {
                        let n1 = run_one(sc, &f1, FLAG_AWARE_BUDGET);
                        let n2 = run_one(sc, &f2, FLAG_AWARE_BUDGET);
                        rep.execs += 2;
                        match (n1, n2) {
                            (Ok((n1, _)), Ok((n2, _))) => match (accept(&n1), accept(&n2)) {
                                (Some(x), Some(y)) => attributed = x == y,
                                _ => {
                                    rep.probe("unattributed_discriminator_budget", 1);
                                    continue;
                                }
                            },
                            _ => {
                                rep.probe("unattributed_discriminator_budget", 1);
                                continue;
                            }
                        }
                    }
                    if attributed {
                        v.detail = format!("{} [persists with a flag-aware key (at capacity {}); keyword-stack route confirmed ({}; {} replayed region side effects in the diverging runs vs {} in the reference): the keyword-version stack is mutated inside memoised parsers and consulted by memoised parsers without being part of the key (version_specifier / endkeywords_directive via white_space; is_keyword), sv-parser-parser/src/general/compiler_directives.rs, utils.rs]", v.detail, cap2, if region { "region: agrees once the keyword directives are blanked out" } else { "leak: agrees once the keyword set is frozen" }, replay_div, replay_ref);
                        rep.matched.push((KNOWN_ID_KW.to_string(), v));
                        if rep.replay_scenario.is_none() {
                            rep.replay_scenario = Some(frozen);
                        }
                    } else {
                        v.detail = format!("{} [persists with a flag-aware memo key at capacity {} (not the known recursion-flag finding); keyword-stack routes: region push seen={}, leaked entries seen={}, intervention did not remove it (not the keyword-stack finding); replayed keyword-region side effects: {} vs {}]", v.detail, cap2, region, leaked, replay_div, replay_ref);
                        rep.violations.push(v);
                        rep.replay_scenario = Some(frozen);
                    }
                }
            }
        }
        rep.nontrivial = evicted_and_missed;
        rep.sample = Some(json!({
            "entry": reference.api.name(),
            "input": reference.text.as_ref().map(|t| t.chars().take(400).collect::<String>()),
            "capacities": calls.iter().map(|c| c.memo_capacity).collect::<Vec<_>>(),
            "reference_steps": ref_steps,
            "reference_result": ref_out.short(),
        }));
        rep
    }
}
