//! C07 — results depend only on the arguments, not on what the thread did before.

use super::common::*;
use crate::exec::{exec, exec_solo, vfs_before, CallOutcome, ExecOpts};
use crate::gen;
use crate::prop::{Property, RunReport};
use crate::rng::{run_seed, Rng};
use crate::scenario::*;
use std::collections::HashMap;

pub struct C07;

fn str_call(rng: &mut Rng, api: Api, text: String) -> Call {
    let mut c = Call::new(api, if rng.coin() { "t.sv" } else { "" });
    c.text = Some(text);
    c.slot = if rng.chance(3, 4) { Some(rng.below(3) as u8) } else { None };
    c.hash_seed = rng.next();
    c.allow_incomplete = rng.chance(1, 4);
    c.ignore_include = rng.chance(1, 6);
    c.strip_comments = rng.chance(1, 4);
    if rng.chance(1, 4) {
        c.defines = gen::define_table(rng);
    }
    c
}

fn random_call(rng: &mut Rng, sc: &mut Scenario, file_no: &mut usize) -> Call {
    let src = match rng.below(15) {
        14 => gen::netlist_program(rng),
        13 => gen::comment_macro_program(rng),
        12 => gen::repeated_construct(rng),
        10 | 11 => gen::macro_program(rng),
        0 | 1 | 2 => gen::polluter(rng),
        3 | 4 => gen::sensitive_probe(rng),
        5 => {
            let t = gen::corpus_sv(rng, 1500).to_string();
            if rng.coin() { gen::rewrap_nonansi(&t) } else { t }
        }
        6 => {
            let t = gen::corpus_sv(rng, 1200).to_string();
            gen::inject_directives(rng, &t)
        }
        7 => {
            let k = 1 + rng.usize_below(4);
            gen::sv_program(rng, k)
        }
        8 => gen::lib_program(rng),
        _ => {
            let t = gen::sensitive_probe(rng);
            gen::mutate(rng, &t)
        }
    };
    match rng.below(16) {
        0 | 1 | 2 | 3 => str_call(rng, Api::ParseSvStr, src),
        4 => str_call(rng, Api::PreprocessStr, src),
        5 => str_call(rng, Api::ParseLibStr, src),
        6 => str_call(rng, Api::ParseSvPpStr, src),
        7 => str_call(rng, Api::RawSv, src),
        8 => str_call(rng, Api::RawSvIncomplete, src),
        9 => str_call(rng, Api::RawLib, src),
        10 => {
            let api = if rng.coin() { Api::RawLibIncomplete } else { Api::ParseLibPpStr };
            str_call(rng, api, src)
        }
        11 => str_call(rng, Api::RawPp, src),
        _ => {
            // file entry point over a small include program, possibly failing half-way
            *file_no += 1;
            let dir = format!("/p{}", file_no);
            let mut prog = gen::pp_program(rng, 3, false);
            let mut faults = vec![];
            let mut nodes = vec![];
            for n in prog.nodes.drain(..) {
                if let VNode::File { path, bytes } = n {
                    let np = if path.starts_with("/w/") { format!("{}{}", dir, &path[2..]) } else { path };
                    nodes.push(VNode::File { path: np, bytes });
                }
            }
            // the top file carries a polluter or probe half of the time
            if rng.coin() {
                for n in nodes.iter_mut() {
                    if let VNode::File { path, bytes } = n {
                        if path.ends_with("/top.sv") {
                            let mut t = String::from_utf8_lossy(&bytes.to_vec()).to_string();
                            t.push_str(&src);
                            *bytes = Bytes::Text(t);
                        }
                    }
                }
            }
            let incl: Vec<String> = prog.files.iter().skip(1).cloned().collect();
            if !incl.is_empty() && rng.chance(1, 3) {
                let kind = match rng.below(4) {
                    0 => FaultKind::Enoent,
                    1 => FaultKind::InvalidUtf8Tail,
                    2 => FaultKind::TruncateAt { k: rng.usize_below(40) },
                    _ => FaultKind::Eacces,
                };
                faults.push(Fault {
                    path: rng.pick(&incl).clone(),
                    nth: None,
                    kind,
                });
            }
            sc.vfs.extend(nodes);
            let api = *rng.pick(&[Api::ParseSv, Api::ParseSv, Api::Preprocess, Api::ParseLib, Api::ParseSvPp, Api::ParseLibPp]);
            let mut c = Call::new(api, &format!("{}/top.sv", dir));
            c.include_paths = prog.include_paths.clone();
            c.defines = prog.defines.clone();
            c.hash_seed = rng.next();
            c.faults = faults;
            c.allow_incomplete = rng.chance(1, 4);
            c.strip_comments = rng.chance(1, 4);
            c
        }
    }
}

impl Property for C07 {
    fn id(&self) -> &'static str {
        "C07"
    }
    fn level(&self) -> &'static str {
        "exploration"
    }
    fn runs(&self, tier: &str) -> u64 {
        if tier == "thorough" {
            150_000
        } else {
            5_000
        }
    }
    fn rule(&self) -> String {
        "one run = one history of 2..8 (thorough: ..16) calls on one long-lived simulated caller thread, mixing all 15 entry points (preprocess*, parse_sv*, parse_lib*, two-step *_pp, raw sv/lib/pp parsers strict and incomplete), accepted / rejected / half-failing (include fault at depth k) / recursion-limit / keyword-region-leaking inputs, texts placed in fixed buffer slots so that address reuse is decided, file rewrites between calls, hash-order seeds; always ending with a repetition of an earlier call. Oracle per call: digest in history == digest of the identical call as the only call of a fresh thread against the same file-system snapshot. distinct = hash of the scenario; non-trivial iff some call left keyword-version residue or a later call reused the address of an earlier different text".into()
    }
    fn assumptions(&self) -> Vec<String> {
        vec![
            "hooks faithful: repo tests pass with the guard on and off; with the guard on the memo is a wrapper around the real nom_packrat::PackratStorage with the shipped capacity and key".into(),
            "library-internal heap buffers (PreprocessedText) are allocated by the system allocator; their address reuse is not decided by the simulator, only that of caller-owned texts (slots)".into(),
            "maps created inside the library use RandomState; reference and in-history results come from different threads (different keys), so a dependence on it would show up as a divergence".into(),
        ]
    }
    fn required_probes(&self) -> Vec<&'static str> {
        vec!["residue_version", "same_address_reuse", "same_address_same_length", "calls_err", "calls_ok", "half_failed_include", "rewrite_between_calls", "recursion_limit_hit"]
    }

    fn generate(&self, seed: u64, run: u64, tier: &str) -> Scenario {
        let mut rng = Rng::new(run_seed(seed, "C07", run));
        let mut sc = Scenario::new("C07", seed, run, tier);
        let max = if tier == "thorough" { 16 } else { 8 };
        let n = 2 + rng.usize_below(max - 1);
        let mut ops: Vec<Op> = vec![];
        let mut file_no = 0;
        let mut calls: Vec<Call> = vec![];
        for _ in 0..n - 1 {
            let c = random_call(&mut rng, &mut sc, &mut file_no);
            if c.api.reads_file() && rng.chance(1, 3) {
                // the content of a path changes between two calls
                let newtext = format!("// rewritten\n{}", gen::sensitive_probe(&mut rng));
                calls.push(c.clone());
                ops.push(Op::Call(c.clone()));
                ops.push(Op::Rewrite {
                    path: c.path.clone(),
                    bytes: Bytes::Text(newtext),
                });
                continue;
            }
            let mut c = c;
            if c.text.is_some() && c.slot.is_some() && rng.chance(1, 5) {
                // adjacent slice of the same buffer: starts exactly where an earlier text of this slot ended
                if let Some(prev) = calls.iter().rev().find(|p| p.slot == c.slot && p.text.is_some()) {
                    let end = prev.slot_off + prev.text.as_ref().map(|t| t.len()).unwrap_or(0);
                    if end + c.text.as_ref().map(|t| t.len()).unwrap_or(0) < 500_000 {
                        c.slot_off = end;
                        sc.family = "history+adjacent".into();
                    }
                }
            }
            calls.push(c.clone());
            ops.push(Op::Call(c.clone()));
            if c.text.is_some() && rng.chance(1, 4) {
                // same address, same length, different text: the sharpest stale-key situation
                let mut v = c.clone();
                if v.slot.is_none() {
                    v.slot = Some(rng.below(3) as u8);
                    if let Some(Op::Call(prev)) = ops.last_mut() {
                        prev.slot = v.slot;
                    }
                    if let Some(prev) = calls.last_mut() {
                        prev.slot = v.slot;
                    }
                }
                let t = v.text.clone().unwrap_or_default();
                v.text = Some(gen::same_len_variant(&mut rng, &t));
                calls.push(v.clone());
                ops.push(Op::Call(v));
                sc.expect = serde_json::json!({"same_len_pair": true});
            }
        }
        // a large input earlier on the thread, then a probe that is sensitive to the memo capacity
        if rng.chance(1, 25) {
            let mut big = Call::new(Api::ParseSvStr, "big.sv");
            big.text = Some(gen::big_text(&mut rng));
            big.hash_seed = rng.next();
            let mut probe = Call::new(*rng.pick(&[Api::ParseSvStr, Api::RawSv]), "probe.sv");
            probe.text = Some(gen::capacity_sensitive_probe(&mut rng));
            probe.hash_seed = rng.next();
            calls.push(big.clone());
            ops.push(Op::Call(big));
            calls.push(probe.clone());
            ops.push(Op::Call(probe));
            sc.family = "history+big-text".into();
        }
        // the same text again with other arguments: a result cached by text (or by path) alone would be stale
        if rng.chance(1, 3) {
            let mut again = rng.pick(&calls).clone();
            match rng.below(5) {
                0 => again.defines = gen::define_table(&mut rng),
                1 => again.defines.clear(),
                2 => again.strip_comments = !again.strip_comments,
                3 => again.allow_incomplete = !again.allow_incomplete,
                _ => {
                    again.include_paths.reverse();
                    again.ignore_include = !again.ignore_include;
                }
            }
            again.hash_seed = rng.next();
            calls.push(again.clone());
            ops.push(Op::Call(again));
        }
        // repeat an earlier call (possibly the polluted-state-sensitive probe in the slot of another)
        let mut last = rng.pick(&calls).clone();
        if rng.chance(1, 3) && last.text.is_some() {
            last.slot = Some(rng.below(3) as u8);
        }
        ops.push(Op::Call(last));
        sc.threads = vec![ops];
        if sc.family.is_empty() {
            sc.family = "history".into();
        }
        sc
    }

    fn check(&self, sc: &Scenario) -> RunReport {
        let mut rep = RunReport::default();
        let opts = ExecOpts::default();
        let hist = exec(sc, &opts);
        rep.execs += 1;
        rep.steps += hist.steps;
        rep.fire(&hist.fired);
        if let Some(e) = &hist.harness_error {
            rep.harness_error = Some(e.clone());
            return rep;
        }
        let mut cache: HashMap<u64, CallOutcome> = HashMap::new();
        // (slot, text): only caller-owned slot addresses are decided by the simulator
        let mut prev: Vec<(Option<u8>, Option<String>)> = vec![];
        let mut version_residue_seen = false;
        let mut addr_reuse = false;
        for (index, op) in sc.threads[0].iter().enumerate() {
            match op {
                Op::Rewrite { .. } | Op::Remove { .. } => {
                    rep.probe("rewrite_between_calls", 1);
                    continue;
                }
                Op::Call(c) => {
                    let o = match hist.call(0, index) {
                        Some(o) => o,
                        None => {
                            rep.harness_error = Some("missing call outcome".into());
                            return rep;
                        }
                    };
                    let snap = vfs_before(sc, 0, index);
                    let key = crate::rng::mix(
                        crate::rng::fnv(serde_json::to_string(c).unwrap_or_default().as_bytes()),
                        crate::rng::fnv(serde_json::to_string(&snap).unwrap_or_default().as_bytes()),
                    );
                    let reference = match cache.get(&key) {
                        Some(r) => r.clone(),
                        None => {
                            let solo = exec_solo(sc, &snap, c, &opts);
                            rep.execs += 1;
                            rep.steps += solo.steps;
                            if let Some(e) = solo.harness_error {
                                rep.harness_error = Some(e);
                                return rep;
                            }
                            let r = match solo.calls.into_iter().next() {
                                Some(r) => r,
                                None => {
                                    rep.harness_error = Some("no reference outcome".into());
                                    return rep;
                                }
                            };
                            cache.insert(key, r.clone());
                            r
                        }
                    };
                    if !o.same_result(&reference) && rep.violations.is_empty() {
                        rep.violations.push(mismatch(
                            "C07",
                            "C07.digest_vs_fresh_thread",
                            0,
                            index,
                            &reference,
                            o,
                            &format!("{} after {} earlier calls differs from the same call on a fresh thread", c.api.name(), prev.len()),
                        ));
                    }
                    // probes
                    if o.residue_before.1 > 0 {
                        version_residue_seen = true;
                        rep.probe("residue_version", 1);
                    }
                    if o.residue_before.0 > 0 {
                        rep.probe("residue_directive", 1);
                    }
                    if o.residue_before.2 > 0 {
                        rep.probe("residue_memo", 1);
                    }
                    if c.slot_off > 0 {
                        rep.probe("adjacent_slice", 1);
                    }
                    if c.path == "big.sv" {
                        rep.probe("big_text_calls", 1);
                    }
                    if c.slot.is_some()
                        && prev.last().map(|(a, t)| *a == c.slot && t.as_ref().map(|t| t.len()) == c.text.as_ref().map(|t| t.len()) && *t != c.text).unwrap_or(false)
                    {
                        rep.probe("same_address_same_length", 1);
                    }
                    if c.slot.is_some() && c.text.is_some() && prev.iter().any(|(a, t)| *a == c.slot && t.is_some() && *t != c.text) {
                        addr_reuse = true;
                        rep.probe("same_address_reuse", 1);
                    }
                    match &o.digest {
                        Some(d) if d.is_ok() => rep.probe("calls_ok", 1),
                        Some(d) => {
                            rep.probe("calls_err", 1);
                            if d.full.contains("ExceedRecursiveLimit") {
                                rep.probe("recursion_limit_hit", 1);
                            }
                            if d.kind == "Err:Include" {
                                rep.probe("half_failed_include", 1);
                            }
                        }
                        None => rep.probe(if o.panic.is_some() { "calls_panicked" } else { "calls_budget" }, 1),
                    }
                    prev.push((c.slot, c.text.clone()));
                }
            }
        }
        rep.nontrivial = version_residue_seen || addr_reuse;
        rep.distinct_key = sc.hash();
        rep.sample = Some(serde_json::json!({
            "history": sc.threads[0].iter().map(|op| match op {
                Op::Call(c) => describe_call(c),
                Op::Rewrite { path, .. } => serde_json::json!({"rewrite": path}),
                Op::Remove { path } => serde_json::json!({"remove": path}),
            }).collect::<Vec<_>>(),
            "results": hist.calls.iter().map(|o| o.short()).collect::<Vec<_>>(),
        }));
        rep
    }
}
