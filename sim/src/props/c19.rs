//! C19 — concurrent calls on different threads do not interfere.

use super::common::*;
use crate::exec::{exec, ExecOpts, RunOutcome};
use crate::gen;
use crate::prop::{Property, RunReport};
use crate::rng::{run_seed, Rng};
use crate::scenario::*;

pub struct C19;

const SHARED_SLOT: u8 = 3;

fn thread_call(rng: &mut Rng, tid: usize, sc: &mut Scenario, have_files: &mut bool) -> Call {
    let src = match rng.below(15) {
        13 | 14 => gen::repeated_construct(rng),
        12 => gen::netlist_program(rng),
        10 | 11 => {
            // several threads deep inside nested constructs at the same time (a shared budget shows only then)
            let d = 14 + rng.usize_below(14);
            gen::deep_parens(rng, d)
        }
        0 | 1 | 2 => gen::polluter(rng),
        3 | 4 | 5 => gen::sensitive_probe(rng),
        6 => {
            let t = gen::corpus_sv(rng, 1200).to_string();
            if rng.coin() { gen::rewrap_nonansi(&t) } else { t }
        }
        7 => {
            let t = gen::corpus_sv(rng, 1000).to_string();
            gen::inject_directives(rng, &t)
        }
        8 => {
            let k = 1 + rng.usize_below(3);
            gen::sv_program(rng, k)
        }
        _ => gen::lib_program(rng),
    };
    if rng.chance(1, 6) {
        let mut c = Call::new(Api::PreprocessStr, "");
        c.text = Some(gen::comment_macro_program(rng));
        c.slot = if tid < 3 && rng.coin() { Some(tid as u8) } else { None };
        c.strip_comments = rng.coin();
        c.hash_seed = rng.next();
        return c;
    }
    let api = match rng.below(16) {
        0..=4 => Api::ParseSvStr,
        5 => Api::PreprocessStr,
        6 => Api::ParseLibStr,
        7 => Api::ParseSvPpStr,
        8 => Api::RawSv,
        9 => Api::RawPp,
        10 => Api::RawLibIncomplete,
        _ => Api::ParseSv,
    };
    if api.reads_file() {
        // one shared file system. Half of the time all threads work on the same project; otherwise every
        // thread has its own project whose headers carry the SAME names but different content, found
        // through its own search directories - a process-wide cache keyed by name would mix them up
        let own = sc.expect["own_projects"].as_bool().unwrap_or(false);
        let key = if own { format!("p{}", tid) } else { "shared".to_string() };
        if sc.expect["projects"].get(&key).is_none() {
            let prog = gen::pp_program(rng, 3, false);
            let prog = if own { gen::relocate(prog, &format!("/t{}", tid), &format!("T{}", tid)) } else { prog };
            sc.vfs.extend(prog.nodes.clone());
            sc.expect["projects"][&key] = serde_json::json!({ "include_paths": prog.include_paths, "top": if own { prog.top.clone() } else { "top.sv".to_string() }, "files": prog.files });
            *have_files = true;
        }
        let proj = sc.expect["projects"][&key].clone();
        let strs = |v: &serde_json::Value| -> Vec<String> { v.as_array().map(|a| a.iter().filter_map(|x| x.as_str().map(|s| s.to_string())).collect()).unwrap_or_default() };
        let mut c = Call::new(*rng.pick(&[Api::ParseSv, Api::Preprocess, Api::ParseSvPp]), proj["top"].as_str().unwrap_or("top.sv"));
        c.include_paths = strs(&proj["include_paths"]);
        c.hash_seed = rng.next();
        c.strip_comments = rng.coin();
        c.ignore_include = rng.chance(1, 6);
        c.allow_incomplete = rng.chance(1, 4);
        if rng.chance(1, 4) {
            let files: Vec<String> = strs(&proj["files"]).into_iter().filter(|p| p.ends_with(".svh")).collect();
            if !files.is_empty() {
                c.faults.push(Fault {
                    path: rng.pick(&files).clone(),
                    nth: None,
                    // static per-path conditions of every kind: missing, unreadable after a successful open, not UTF-8
                    kind: match rng.below(5) {
                        0 => FaultKind::Enoent,
                        1 => FaultKind::InvalidUtf8Tail,
                        2 => FaultKind::IsDir,
                        3 => FaultKind::EioAt { k: rng.usize_below(20) },
                        _ => FaultKind::Eacces,
                    },
                });
            }
        }
        return c;
    }
    let mut c = Call::new(api, "");
    c.text = Some(src);
    // concurrent calls differ in every flag, not only in their input
    c.strip_comments = rng.coin();
    c.ignore_include = rng.chance(1, 4);
    // private slots 0..2 by thread so no two threads write one buffer; None = private heap
    c.slot = if tid < 3 && rng.coin() { Some(tid as u8) } else { None };
    c.hash_seed = rng.next();
    c.allow_incomplete = rng.chance(1, 4);
    c
}

impl C19 {
    fn solo_refs(&self, sc: &Scenario, rep: &mut RunReport) -> Option<Vec<RunOutcome>> {
        let mut refs: Vec<RunOutcome> = vec![];
        let mut cache: std::collections::HashMap<u64, RunOutcome> = std::collections::HashMap::new();
        for t in 0..sc.threads.len() {
            let key = crate::rng::fnv(serde_json::to_string(&sc.threads[t]).unwrap_or_default().as_bytes());
            if let Some(r) = cache.get(&key) {
                refs.push(r.clone());
                continue;
            }
            let mut solo = sc.clone();
            solo.threads = vec![sc.threads[t].clone()];
            solo.schedule = Schedule::Solo;
            let out = exec(&solo, &ExecOpts::default());
            rep.execs += 1;
            rep.steps += out.steps;
            if let Some(e) = &out.harness_error {
                rep.harness_error = Some(e.clone());
                return None;
            }
            cache.insert(key, out.clone());
            refs.push(out);
        }
        Some(refs)
    }
}

impl Property for C19 {
    fn id(&self) -> &'static str {
        "C19"
    }
    fn level(&self) -> &'static str {
        "exploration"
    }
    fn runs(&self, tier: &str) -> u64 {
        if tier == "thorough" {
            100_000
        } else {
            4_000
        }
    }
    fn rule(&self) -> String {
        "one run = 2..4 simulated caller threads (real OS threads, exactly one runnable, baton passed at every grammar terminal, parser-state mutation and file-system operation) with 1..3 calls each over all entry points; inputs rich in keyword regions, kept directives, macro definitions/usages and failing calls; with probability 1/4 two threads parse the same text from the same buffer (same memo-key pointers); one shared simulated file system with static per-path conditions; schedule policy drawn per run from random(1/1024|1/64|1/8), PCT(d=1..3) and mutation-site-biased. Oracle: every call's digest == the digest it has when its thread's program runs alone. distinct = hash(scenario) xor hash of the (thread, site) sequence over state-mutation sites; non-trivial iff a thread was preempted inside a call while its directive/keyword stack was non-empty or another thread ran init() while it was mid-call".into()
    }
    fn assumptions(&self) -> Vec<String> {
        vec![
            "between two yield points a thread runs alone: the scheduler serialises execution, so it shows the logical effect of shared state but not data-race undefined behaviour".into(),
            "every write to the thread-local parser state is preceded by a yield point (hook H2), so any cross-thread influence through it is exposed at block granularity".into(),
            "hooks faithful (repo tests pass guard on/off)".into(),
            "process-wide OS state outside the simulated file system is not modelled: the real working directory of the process is never changed by the harness and a change that goes through std::env::set_current_dir is inert on simulated paths (seeded change C19-r6a is not caught)".into(),
            "blocking synchronisation that a change brings with it has no yield point between its two ends; only the free-running supplement (1/8 of the runs, interleaving not decided, statistical replay) can expose it".into(),
        ]
    }
    fn required_probes(&self) -> Vec<&'static str> {
        vec!["preempted_inflight", "init_while_other_midcall", "same_pointer_overlap", "switches_midcall"]
    }

    fn generate(&self, seed: u64, run: u64, tier: &str) -> Scenario {
        let mut rng = Rng::new(run_seed(seed, "C19", run));
        let mut sc = Scenario::new("C19", seed, run, tier);
        let n = 2 + rng.usize_below(3);
        let mut have_files = false;
        sc.expect = serde_json::json!({ "own_projects": rng.coin(), "projects": {} });
        let mut threads: Vec<Vec<Op>> = vec![];
        for tid in 0..n {
            let k = 1 + rng.usize_below(3);
            let mut ops = vec![];
            for _ in 0..k {
                ops.push(Op::Call(thread_call(&mut rng, tid, &mut sc, &mut have_files)));
            }
            threads.push(ops);
        }
        if rng.chance(1, 4) {
            // two threads parse the same text from the same buffer
            let text = if rng.coin() { gen::polluter(&mut rng) } else { gen::corpus_sv(&mut rng, 1200).to_string() };
            let api = *rng.pick(&[Api::ParseSvStr, Api::RawSv, Api::PreprocessStr]);
            let a = rng.usize_below(n);
            let mut b = rng.usize_below(n);
            if b == a {
                b = (a + 1) % n;
            }
            for t in [a, b] {
                let mut c = Call::new(api, "");
                c.text = Some(text.clone());
                c.slot = Some(SHARED_SLOT);
                let at = rng.usize_below(threads[t].len() + 1);
                threads[t].insert(at, Op::Call(c));
            }
            sc.family = "same-buffer".into();
        } else {
            sc.family = "distinct-buffers".into();
        }
        if rng.chance(1, 24) {
            // every thread descends its own long include chain: together they hold far more nested files
            // open than any one call could (a shared budget or pool shows only then)
            let nt = 3 + rng.usize_below(2);
            let mut deep: Vec<Vec<Op>> = vec![];
            for t in 0..nt {
                let depth = 45 + rng.below(18);
                let dir = format!("/d{}", t);
                for i in 0..=depth {
                    let body = if i < depth { format!("// level {}\n`include \"c{}.svh\"\nwire l{}_{};\n", i, i + 1, t, i) } else { format!("wire leaf{};\n", t) };
                    sc.vfs.push(VNode::file(&format!("{}/c{}.svh", dir, i), &body));
                }
                let mut c = Call::new(Api::Preprocess, &format!("{}/c0.svh", dir));
                c.include_paths = vec![dir.clone()];
                deep.push(vec![Op::Call(c)]);
            }
            sc.threads = deep;
            sc.expect = serde_json::json!({});
            sc.family = "deep-includes".into();
            sc.schedule = Schedule::Random { num: 1, den: 8, seed: rng.next() };
            return sc;
        }
        if rng.chance(1, 20) {
            // every thread is deep inside nested constructs at the same time: a budget, counter or pool shared by
            // all threads of the process shows only when the sum over the threads exceeds what one call reaches
            let nt = 3 + rng.usize_below(2);
            let mut deep: Vec<Vec<Op>> = vec![];
            for _ in 0..nt {
                let d = 22 + rng.usize_below(9);
                let mut c = Call::new(if rng.coin() { Api::RawSv } else { Api::ParseSvStr }, "");
                c.text = Some(gen::deep_parens(&mut rng, d));
                deep.push(vec![Op::Call(c)]);
            }
            sc.threads = deep;
            sc.expect = serde_json::json!({});
            sc.family = "deep-nesting".into();
            sc.schedule = Schedule::Random { num: 1, den: 6, seed: rng.next() };
            return sc;
        }
        if rng.chance(1, 16) {
            // a crowd: more threads in one process than any fixed-size per-thread table would hold. Two
            // directive- and comment-heavy workers, and 127..134 one-shot threads between them
            let heavy = |rng: &mut Rng| -> Vec<Op> {
                let mut t = String::from("// head\n");
                for i in 0..6 + rng.below(6) {
                    t.push_str(&format!("`define H{} {} /* c{} */\n`ifdef H{}\nwire w{}; // x\n`endif\n", i, i, i, i, i));
                }
                t.push_str("module m; /* body */ wire a; endmodule // tail\n");
                let mut c = Call::new(Api::ParseSvStr, "");
                c.text = Some(t);
                vec![Op::Call(c.clone()), Op::Call(c)]
            };
            let fillers = 127 + rng.usize_below(8);
            let mut crowd: Vec<Vec<Op>> = vec![heavy(&mut rng)];
            for _ in 0..fillers {
                let mut c = Call::new(Api::PreprocessStr, "");
                c.text = Some("wire f; // filler\n".to_string());
                crowd.push(vec![Op::Call(c)]);
            }
            crowd.push(heavy(&mut rng));
            crowd.push(heavy(&mut rng));
            sc.threads = crowd;
            sc.vfs.clear();
            sc.expect = serde_json::json!({});
            sc.family = "crowd".into();
            sc.schedule = Schedule::Random { num: 1, den: 4, seed: rng.next() };
            return sc;
        }
        if rng.chance(1, 8) {
            // free-running supplement: more calls per thread, all threads released together
            for t in threads.iter_mut() {
                let extra: Vec<Op> = t.iter().cloned().collect();
                for _ in 0..2 {
                    t.extend(extra.clone());
                }
            }
            sc.threads = threads;
            sc.schedule = Schedule::Free;
            sc.family = format!("{}+free-running", sc.family);
            return sc;
        }
        sc.threads = threads;
        let s = rng.next();
        sc.schedule = match rng.below(8) {
            0 => Schedule::Random { num: 1, den: 1024, seed: s },
            1 | 2 => Schedule::Random { num: 1, den: 64, seed: s },
            3 => Schedule::Random { num: 1, den: 8, seed: s },
            4 | 5 => Schedule::Pct { depth: 1 + rng.below(3) as u32, seed: s, est_steps: 0 },
            _ => Schedule::Biased { num: 1, den: 128, seed: s },
        };
        sc
    }

    fn valid(&self, sc: &Scenario) -> bool {
        sc.threads.len() >= 2 && sc.threads.iter().all(|t| !t.is_empty())
    }

    fn check(&self, sc: &Scenario) -> RunReport {
        let mut rep = RunReport::default();
        let refs = match self.solo_refs(sc, &mut rep) {
            Some(r) => r,
            None => return rep,
        };
        let mut conc = sc.clone();
        if let Schedule::Pct { depth, seed, est_steps: 0 } = &sc.schedule {
            conc.schedule = Schedule::Pct {
                depth: *depth,
                seed: *seed,
                est_steps: refs.iter().map(|r| r.steps).sum::<u64>().max(2),
            };
        }
        let out = exec(&conc, &ExecOpts::default());
        rep.execs += 1;
        rep.steps += out.steps;
        rep.fire(&out.fired);
        if let Some(a) = &out.aborted {
            // every program returned when run alone (the references above), together they did not
            let mut v = crate::runner::abort_violation("C19", a);
            v.clause = "C19.concurrent_calls_return".into();
            v.kind = if a.starts_with("watchdog") { "hang".into() } else { "abort".into() };
            v.detail = format!("{} threads: every thread's program returns when run alone; run together the process {}", sc.threads.len(), a);
            rep.violations.push(v);
            rep.nontrivial = true;
            rep.distinct_key = sc.hash();
            return rep;
        }
        if let Some(e) = &out.harness_error {
            rep.harness_error = Some(e.clone());
            return rep;
        }
        for (t, r) in refs.iter().enumerate() {
            for ro in &r.calls {
                let co = match out.call(t, ro.index) {
                    Some(c) => c,
                    None => {
                        rep.harness_error = Some("missing concurrent outcome".into());
                        return rep;
                    }
                };
                if !co.same_result(ro) && rep.violations.is_empty() {
                    let api = match &sc.threads[t][ro.index] {
                        Op::Call(c) => c.api.name(),
                        _ => "?",
                    };
                    rep.violations.push(mismatch(
                        "C19",
                        "C19.digest_vs_alone",
                        t,
                        ro.index,
                        ro,
                        co,
                        &format!("{} on thread {} of {} differs from the same program run alone", api, t, sc.threads.len()),
                    ));
                }
            }
        }
        if matches!(sc.schedule, Schedule::Free) {
            rep.probe("free_running_runs", 1);
            if let Some(v) = rep.violations.first_mut() {
                v.clause = "C19.digest_vs_alone_free_running".into();
                v.detail = format!("{} [free-running supplement: the interleaving was not decided by the simulator; replay is statistical]", v.detail);
            }
        } else if !rep.violations.is_empty() {
            let mut frozen = sc.clone();
            frozen.schedule = Schedule::Explicit { switches: out.sched.switches.clone() };
            // only offer the frozen form if it reproduces
            let again = exec(&frozen, &ExecOpts::default());
            rep.execs += 1;
            let v = &rep.violations[0];
            let same = again
                .call(v.thread, v.call)
                .map(|c| c.short() == v.observed)
                .unwrap_or(false);
            if same {
                rep.replay_scenario = Some(frozen);
            }
        }
        rep.probe("preempted_inflight", out.sched.preempt_inflight);
        rep.probe("init_while_other_midcall", out.sched.init_while_other_midcall);
        rep.probe("switches_midcall", out.sched.switches_midcall);
        rep.probe("context_switches", out.sched.switches.len() as u64);
        if sc.family == "same-buffer" && out.sched.switches_midcall > 0 {
            rep.probe("same_pointer_overlap", 1);
        }
        if sc.threads.len() > 8 {
            rep.probe("crowd_runs", 1);
        } else {
            rep.probe(&format!("threads_{}", sc.threads.len()), 1);
        }
        rep.nontrivial = out.sched.preempt_inflight > 0 || out.sched.init_while_other_midcall > 0;
        rep.distinct_key = crate::rng::mix(sc.hash(), out.sched.sig);
        rep.sample = Some(serde_json::json!({
            "threads": sc.threads.iter().map(|t| t.iter().filter_map(|op| match op { Op::Call(c) => Some(describe_call(c)), _ => None }).collect::<Vec<_>>()).collect::<Vec<_>>(),
            "schedule": sc.schedule,
            "context_switches": out.sched.switches.len(),
            "first_switches": out.sched.switches.iter().take(12).collect::<Vec<_>>(),
            "results": out.calls.iter().map(|o| format!("t{}#{} {}", o.thread, o.index, o.short())).collect::<Vec<_>>(),
        }));
        rep
    }
}
