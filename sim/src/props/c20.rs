//! C20 — file, string and two-step entry points agree.

use super::common::*;
use crate::exec::{exec_solo, ExecOpts};
use crate::gen;
use crate::prop::{Property, RunReport};
use crate::rng::{run_seed, Rng};
use crate::scenario::*;

pub struct C20;

fn transparent_faults(rng: &mut Rng, files: &[String]) -> Vec<Fault> {
    let mut v = vec![];
    for f in files {
        if rng.coin() {
            let n = 1 + rng.usize_below(3);
            let chunks: Vec<usize> = (0..n).map(|_| *rng.pick(&[1usize, 1, 2, 3, 5, 7, 16, 64])).collect();
            v.push(Fault {
                path: f.clone(),
                nth: None,
                kind: FaultKind::ShortRead { chunks },
            });
        }
        if rng.chance(1, 3) {
            v.push(Fault {
                path: f.clone(),
                nth: None,
                kind: FaultKind::Eintr { every: 1 + rng.usize_below(3) },
            });
        }
    }
    v
}

impl C20 {
    /// one process, one thread: group on version 1 of the files, rewrite, the same group on version 2
    fn check_sequence(&self, sc: &Scenario) -> RunReport {
        let mut rep = RunReport::default();
        let out = crate::exec::exec(sc, &ExecOpts::default());
        rep.execs += 1;
        rep.steps += out.steps;
        rep.fire(&out.fired);
        if let Some(e) = &out.harness_error {
            rep.harness_error = Some(e.clone());
            return rep;
        }
        // split the program into groups at the rewrites
        let mut groups: Vec<Vec<usize>> = vec![vec![]];
        for (i, op) in sc.threads[0].iter().enumerate() {
            match op {
                Op::Call(_) => groups.last_mut().unwrap().push(i),
                _ => {
                    if !groups.last().unwrap().is_empty() {
                        groups.push(vec![]);
                    }
                }
            }
        }
        for (g, idx) in groups.iter().enumerate() {
            let first = match idx.first().and_then(|i| out.call(0, *i)) {
                Some(o) => o,
                None => continue,
            };
            for i in idx.iter().skip(1) {
                if let Some(o) = out.call(0, *i) {
                    if !o.same_result(first) && rep.violations.is_empty() {
                        let (a, b) = match (&sc.threads[0][idx[0]], &sc.threads[0][*i]) {
                            (Op::Call(a), Op::Call(b)) => (a.api.name(), b.api.name()),
                            _ => ("?", "?"),
                        };
                        rep.violations.push(mismatch(
                            "C20",
                            "C20.entry_points_agree",
                            0,
                            *i,
                            first,
                            o,
                            &format!("{} disagrees with {} on visit {} of the same paths in one process", b, a, g + 1),
                        ));
                    }
                }
            }
        }
        rep.probe("sequence_groups", 1);
        rep.nontrivial = true;
        rep.distinct_key = sc.hash();
        rep.sample = Some(serde_json::json!({
            "family": sc.family,
            "program": sc.threads[0].iter().map(|op| match op {
                Op::Call(c) => serde_json::json!({"call": c.api.name(), "ignore_include": c.ignore_include, "strip_comments": c.strip_comments}),
                Op::Rewrite { path, .. } => serde_json::json!({"rewrite": path}),
                Op::Remove { path } => serde_json::json!({"remove": path}),
            }).collect::<Vec<_>>(),
            "results": out.calls.iter().map(|o| o.short()).collect::<Vec<_>>(),
        }));
        rep
    }
}

impl Property for C20 {
    fn id(&self) -> &'static str {
        "C20"
    }
    fn level(&self) -> &'static str {
        "exploration"
    }
    fn runs(&self, tier: &str) -> u64 {
        if tier == "thorough" {
            400_000
        } else {
            4_000
        }
    }
    fn rule(&self) -> String {
        "one run = one program over the simulated file system (top file + include chain + comments) and one group of calls that must agree: {parse_sv(path), parse_sv_str(contents,path), preprocess+parse_sv_pp, preprocess_str+parse_sv_pp} or the parse_lib quartet or {preprocess(path,strip,ignore), preprocess_str(contents,path,ignore,strip,0,0)}, each executed on a fresh thread; flags, defines, include paths, non-UTF-8/multi-byte content, transparent faults (short reads incl. 1-byte chunks, EINTR) on the file-reading calls only and opaque conditions (missing include, non-UTF-8 include, IncludeLine, undefined macro) for all calls. distinct = hash of the scenario; non-trivial iff the group has ignore_include != strip-side default with both a comment and an include present (a swapped boolean changes the result), or a transparent fault fired".into()
    }
    fn assumptions(&self) -> Vec<String> {
        vec![
            "hooks faithful: the repo's own test suite passes with the guard on and off".into(),
            "the simulated file system delivers bytes like POSIX read(2): any positive chunk size, EINTR before data".into(),
            "each call of a group runs on a fresh thread so a history effect (C07) cannot be mistaken for an entry-point disagreement".into(),
        ]
    }
    fn required_probes(&self) -> Vec<&'static str> {
        vec!["groups_flags_tf_or_ft", "transparent_fault_fired", "opaque_condition", "lib_groups", "pp_pair_groups", "sequence_groups"]
    }

    fn generate(&self, seed: u64, run: u64, tier: &str) -> Scenario {
        let mut rng = Rng::new(run_seed(seed, "C20", run));
        let mut sc = Scenario::new("C20", seed, run, tier);
        let family = rng.below(10);
        let mut prog = gen::pp_program(&mut rng, 3, true);
        let ignore = rng.coin();
        let incomplete = rng.coin();
        let strip = rng.coin();
        let mut top_path = "/w/top.sv".to_string();
        // opaque conditions, identical for every call of the group
        let mut opaque: Vec<Fault> = vec![];
        let cond = rng.below(11);
        let incl_files: Vec<String> = prog.files.iter().skip(1).cloned().collect();
        match cond {
            0 if !incl_files.is_empty() => opaque.push(Fault {
                path: rng.pick(&incl_files).clone(),
                nth: None,
                kind: FaultKind::Enoent,
            }),
            1 if !incl_files.is_empty() => opaque.push(Fault {
                path: rng.pick(&incl_files).clone(),
                nth: None,
                kind: FaultKind::InvalidUtf8Tail,
            }),
            _ => {}
        }
        // edit the top text for structural conditions
        for n in prog.nodes.iter_mut() {
            if let VNode::File { path, bytes } = n {
                if path == "/w/top.sv" {
                    let mut t = String::from_utf8_lossy(&bytes.to_vec()).to_string();
                    match cond {
                        2 => t = t.replacen("`include \"", "wire w0; `include \"", 1),
                        3 => t = t.replacen("endmodule", "  wire `NOT_DEFINED_ANYWHERE;\nendmodule", 1),
                        4 => t.push_str("// caf\u{e9} \u{4e16}\u{754c}\n"),
                        5 => t = t.replacen("module top;", "module top;\n  initial $display(\"h\u{e9}llo `TOPW\");", 1),
                        6 => t = format!("{}{}", gen::comment_macro_program(&mut rng), t),
                        8 => t = t.replacen("module top;", "module top;\n  initial $display(`__FILE__, `__LINE__);", 1),
                        7 => {
                            // a top file WITHOUT any backtick: the preprocessor must still be run on it, on every route
                            // (string literals and escaped identifiers with trailing blanks or comments, lexical errors)
                            let mut d = String::from("module plain; /* no directive here */\n");
                            for i in 0..1 + rng.below(4) {
                                match rng.below(6) {
                                    0 => d.push_str(&format!("  initial $display(\"s{}\" , x); // after a string\n", i)),
                                    1 => d.push_str(&format!("  wire \\esc{}  /* c */ ;\n", i)),
                                    2 => d.push_str("  initial $display(\"a\"  /* c */  );\n"),
                                    3 => d.push_str("  localparam string S = \"t\" ;\n"),
                                    4 => d.push_str(&format!("  wire w{};\n", i)),
                                    _ => d.push_str("  // only a comment\n"),
                                }
                            }
                            d.push_str("endmodule\n");
                            match rng.below(6) {
                                0 => d.push_str("/* unterminated comment\n"),
                                1 => d.push_str("\"unterminated string\n"),
                                2 => d.push_str("wire \\\n"),
                                _ => {}
                            }
                            t = d;
                        }
                        _ => {}
                    }
                    // byte-level variations of the top file that a reader might "normalise"
                    match rng.below(12) {
                        0 => t = format!("\u{feff}{}", t),
                        1 => t = t.replace('\n', "\r\n"),
                        2 => {
                            while t.ends_with('\n') {
                                t.pop();
                            }
                        }
                        3 => t.push_str("\u{1a}"),
                        4 => t = format!("\n\n{}", t),
                        _ => {}
                    }
                    if family >= 8 {
                        // library-map family
                        t = format!("// lib map\n`include \"{}\"\n{}", "l.map", gen::lib_program(&mut rng));
                    }
                    *bytes = Bytes::Text(t);
                }
            }
        }
        if family >= 8 {
            let dir = prog.include_paths[0].clone();
            prog.nodes.push(VNode::file(&format!("{}/l.map", dir), "library inc x.v; /* inner */\n`define LIBM 1\n"));
            prog.files.push(format!("{}/l.map", dir));
            top_path = "/w/top.sv".into();
        }
        // decoration (own random stream, so the other families keep their values): the search directories are handed
        // over in an order that is NOT the sorted one, one of them may be listed twice, and headers exist a second time
        // with other content in another listed directory - every route must take the caller's first hit
        // (C20-r7a: the file entry sorts and de-duplicates the list "once per run", the string entry does not)
        let mut dirs_family = false;
        {
            let mut drng = Rng::new(run_seed(seed, "C20-dirs", run));
            if drng.chance(1, 4) {
                dirs_family = true;
                let mut paths = prog.include_paths.clone();
                paths.push(if drng.coin() { "/aa0".to_string() } else { "/zz9".to_string() });
                if drng.chance(1, 3) {
                    paths.push("/mm5".to_string());
                }
                for i in (1..paths.len()).rev() {
                    let j = drng.usize_below(i + 1);
                    paths.swap(i, j);
                }
                let mut sorted = paths.clone();
                sorted.sort();
                if sorted == paths {
                    paths.reverse();
                }
                let headers: Vec<(String, Vec<u8>)> = prog
                    .nodes
                    .iter()
                    .filter_map(|n| match n {
                        VNode::File { path, bytes } if !path.starts_with("/w/") => Some((path.clone(), bytes.to_vec())),
                        _ => None,
                    })
                    .collect();
                for (k, (hp, body)) in headers.iter().enumerate() {
                    let (hdir, name) = hp.rsplit_once('/').unwrap_or(("", hp.as_str()));
                    let others: Vec<&String> = paths.iter().filter(|d| d.as_str() != hdir).collect();
                    if others.is_empty() || drng.chance(1, 4) {
                        continue;
                    }
                    let target = format!("{}/{}", drng.pick(&others), name);
                    if prog.nodes.iter().any(|n| n.path() == target) {
                        continue;
                    }
                    let text = format!("{}`define SHADOW{} {}\nlocalparam int SHADOW{}_P = {};\n", String::from_utf8_lossy(body), k, k + 100, k, k);
                    prog.nodes.push(VNode::file(&target, &text));
                }
                if drng.chance(1, 3) {
                    let d = drng.pick(&paths).clone();
                    paths.push(d);
                }
                // last (after every other draw of this decoration): a header may also exist, with other content again, in
                // the working directory - "working directory before search directories" must hold on every route alike
                for (k, (hp, body)) in headers.iter().enumerate() {
                    let name = hp.rsplit('/').next().unwrap_or("");
                    let target = format!("/w/{}", name);
                    if drng.chance(1, 5) && !name.is_empty() && !prog.nodes.iter().any(|n| n.path() == target) {
                        let text = format!("{}`define CWDSHADOW{} {}\n", String::from_utf8_lossy(body), k, k + 200);
                        prog.nodes.push(VNode::file(&target, &text));
                    }
                }
                prog.include_paths = paths;
            }
        }
        sc.vfs = prog.nodes.clone();
        if family < 8 && rng.chance(1, 8) {
            // an include chain around the implementation limit: both sides must count levels alike
            let depth = 60 + rng.below(9);
            for n in sc.vfs.iter_mut() {
                if let VNode::File { path, bytes } = n {
                    if path == "/w/top.sv" {
                        let t = String::from_utf8_lossy(&bytes.to_vec()).to_string();
                        *bytes = Bytes::Text(format!("`include \"d1.svh\"\n{}", t));
                    }
                }
            }
            for i in 1..=depth {
                let body = if i < depth { format!("`include \"d{}.svh\"\n", i + 1) } else { "// leaf\n".to_string() };
                sc.vfs.push(VNode::file(&format!("{}/d{}.svh", prog.include_paths[0], i), &body));
            }
            sc.expect = serde_json::json!({ "deep_chain": depth });
        }
        let base = |api: Api| -> Call {
            let mut c = Call::new(api, "top.sv");
            c.defines = prog.defines.clone();
            c.hash_seed = 77;
            c.include_paths = prog.include_paths.clone();
            c.ignore_include = ignore;
            c.allow_incomplete = incomplete;
            c.strip_comments = strip;
            c.faults = opaque.clone();
            c
        };
        let _ = top_path;
        let apis: Vec<Api> = if family >= 8 {
            sc.family = "parse_lib quartet".into();
            vec![Api::ParseLib, Api::ParseLibStr, Api::ParseLibPp, Api::ParseLibPpStr]
        } else if family >= 5 {
            sc.family = "preprocess pair".into();
            vec![Api::Preprocess, Api::PreprocessStr]
        } else {
            sc.family = "parse_sv quartet".into();
            vec![Api::ParseSv, Api::ParseSvStr, Api::ParseSvPp, Api::ParseSvPpStr]
        };
        if dirs_family {
            sc.family.push_str(" +unsorted-dirs");
        }
        let mut ops: Vec<Op> = vec![];
        for api in apis {
            let mut c = base(api);
            if api.reads_file() {
                // the bytes may arrive in any way
                let mut all = vec!["/w/top.sv".to_string()];
                all.extend(prog.files.iter().skip(1).cloned());
                c.faults.extend(transparent_faults(&mut rng, &all));
            } else {
                // include files are still read by the string entry points
                let incs: Vec<String> = prog.files.iter().skip(1).cloned().collect();
                if rng.coin() {
                    c.faults.extend(transparent_faults(&mut rng, &incs));
                }
            }
            ops.push(Op::Call(c));
        }
        // "sequence" family: the whole group runs on ONE thread of ONE process, after an earlier
        // visit of the same paths whose contents then change - the equality is claimed for every
        // call, whatever was read before
        if rng.chance(1, 4) {
            let mut seq = ops.clone();
            let current: Vec<VNode> = sc.vfs.clone();
            for n in &current {
                if let VNode::File { path, bytes: Bytes::Text(t) } = n {
                    let t2 = if path == "/w/top.sv" && family < 8 {
                        t.replacen("module top;", "module top;\n  wire second_visit; // v2", 1)
                    } else if path == "/w/top.sv" {
                        format!("{}library second_visit v2.v; // v2\n", t)
                    } else {
                        t.replacen("localparam int L", "localparam int V2L", 1).replacen("library inc", "library inc2", 1)
                    };
                    if t2 != *t {
                        seq.push(Op::Rewrite { path: path.clone(), bytes: Bytes::Text(t2) });
                    }
                }
            }
            seq.extend(ops.clone());
            ops = seq;
            sc.family = format!("{} sequence", sc.family);
        }
        if !sc.family.contains("sequence") && rng.chance(1, 10) {
            // the top file itself cannot be read: only the file-reading routes exist then, and they must agree
            let kind = match rng.below(6) {
                0 => FaultKind::InvalidUtf8Tail,
                1 => FaultKind::Corrupt { k: rng.usize_below(8), byte: 0xFF },
                2 => FaultKind::EioAt { k: rng.usize_below(30) },
                3 => FaultKind::IsDir,
                4 => FaultKind::Enoent,
                _ => FaultKind::TruncateAt { k: 1 + rng.usize_below(40) },
            };
            let keep: Vec<Op> = ops
                .iter()
                .filter(|o| matches!(o, Op::Call(c) if c.api.reads_file()))
                .cloned()
                .map(|o| match o {
                    Op::Call(mut c) => {
                        c.faults.retain(|f| !f.kind.transparent());
                        c.faults.push(Fault { path: "/w/top.sv".to_string(), nth: None, kind: kind.clone() });
                        Op::Call(c)
                    }
                    other => other,
                })
                .collect();
            if keep.len() >= 2 {
                ops = keep;
                sc.family = format!("{} top-unreadable", sc.family);
            }
        }
        sc.threads = vec![ops];
        if rng.chance(1, 5) {
            // the same file under another spelling of its path: every route must use the caller's spelling
            let spelled = *rng.pick(&["./top.sv", "sub/../top.sv", ".//top.sv", "../w/top.sv", "/w/./top.sv"]);
            for op in sc.threads[0].iter_mut() {
                if let Op::Call(c) = op {
                    c.path = spelled.to_string();
                }
            }
            sc.vfs.push(VNode::Dir { path: "/w/sub".to_string() });
            sc.family = format!("{} path-spelling", sc.family);
        } else if rng.chance(1, 6) {
            // the top file lives outside the working directory, with one of its headers next to it and
            // nowhere else: no entry point may find that header (none of them searches the file's directory)
            let new_top = "/proj/src/top.sv".to_string();
            let arg = if rng.coin() { new_top.clone() } else { "../proj/src/top.sv".to_string() };
            let top_text = sc.vfs.iter().find_map(|n| match n {
                VNode::File { path, bytes: Bytes::Text(t) } if path == "/w/top.sv" => Some(t.clone()),
                _ => None,
            });
            let sibling: Option<String> = top_text.as_ref().and_then(|t| {
                sc.vfs.iter().map(|n| n.path().to_string()).find(|p| {
                    p != "/w/top.sv" && p.rsplit('/').next().map(|name| t.contains(&format!("\"{}\"", name))).unwrap_or(false)
                })
            });
            let ren = |p: &str| -> String {
                if p == "/w/top.sv" {
                    new_top.clone()
                } else if Some(p.to_string()) == sibling {
                    format!("/proj/src/{}", p.rsplit('/').next().unwrap_or("h.svh"))
                } else {
                    p.to_string()
                }
            };
            for n in sc.vfs.iter_mut() {
                match n {
                    VNode::File { path, .. } | VNode::Dir { path } | VNode::Symlink { path, .. } => *path = ren(path),
                }
            }
            for op in sc.threads[0].iter_mut() {
                match op {
                    Op::Call(c) => {
                        c.path = arg.clone();
                        for f in c.faults.iter_mut() {
                            f.path = ren(&f.path);
                        }
                    }
                    Op::Rewrite { path, .. } | Op::Remove { path } => *path = ren(path),
                }
            }
            sc.family = format!("{} top-outside-cwd", sc.family);
        }
        sc
    }

    fn valid(&self, sc: &Scenario) -> bool {
        if sc.family.contains("sequence") {
            // shrinking a sequence could break the pairing of groups: only whole scenarios are valid
            let p0 = sc.calls().next().map(|c| c.path.clone()).unwrap_or_default();
            return sc.threads.len() == 1 && sc.calls().count() >= 4 && sc.calls().all(|c| c.path == p0 && c.text.is_none())
                && sc.threads[0].iter().filter(|o| matches!(o, Op::Rewrite { .. })).count() >= 1
                && {
                    let calls: Vec<&Call> = sc.calls().collect();
                    let half = calls.len() / 2;
                    calls.len() % 2 == 0 && (0..half).all(|i| calls[i] == calls[i + half])
                };
        }
        // "contents of path" must exist, be deliverable unchanged, and every call must name it
        let p0 = sc.calls().next().map(|c| c.path.clone()).unwrap_or_default();
        let top_norm = crate::vfs::normalise(&sc.cwd, &p0);
        let top = sc.vfs.iter().any(|n| matches!(n, VNode::File { path, bytes: Bytes::Text(_) } if crate::vfs::normalise(&sc.cwd, path) == top_norm));
        let calls: Vec<&Call> = sc.calls().collect();
        let same = calls.windows(2).all(|w| {
            let (a, b) = (w[0], w[1]);
            a.path == b.path
                && a.defines == b.defines
                && a.include_paths == b.include_paths
                && a.ignore_include == b.ignore_include
                && a.allow_incomplete == b.allow_incomplete
                && a.strip_comments == b.strip_comments
                && a.text.is_none()
                && b.text.is_none()
        });
        let opaque_same = calls.windows(2).all(|w| {
            let f = |c: &Call| -> Vec<Fault> { c.faults.iter().filter(|f| !f.kind.transparent()).cloned().collect() };
            f(w[0]) == f(w[1])
        });
        let no_top_fault = calls
            .iter()
            .all(|c| c.faults.iter().all(|f| f.kind.transparent() || f.path != top_norm));
        let unreadable = sc.family.contains("top-unreadable") && calls.iter().all(|c| c.api.reads_file());
        top && calls.len() >= 2 && same && opaque_same && (no_top_fault || unreadable)
    }

    fn check(&self, sc: &Scenario) -> RunReport {
        let mut rep = RunReport::default();
        if !self.valid(sc) {
            rep.harness_error = Some("scenario outside the domain of C20 (top file or call group malformed)".into());
            return rep;
        }
        let opts = ExecOpts::default();
        if sc.family.contains("sequence") {
            return self.check_sequence(sc);
        }
        let calls: Vec<&Call> = sc.calls().collect();
        let mut outs = vec![];
        for c in &calls {
            let out = exec_solo(sc, &sc.vfs, c, &opts);
            rep.execs += 1;
            rep.steps += out.steps;
            rep.fire(&out.fired);
            if let Some(e) = out.harness_error {
                rep.harness_error = Some(e);
                return rep;
            }
            match out.calls.into_iter().next() {
                Some(o) => outs.push(o),
                None => {
                    rep.harness_error = Some("no outcome".into());
                    return rep;
                }
            }
        }
        if outs.is_empty() {
            return rep;
        }
        for i in 1..outs.len() {
            if !outs[i].same_result(&outs[0]) {
                rep.violations.push(mismatch(
                    "C20",
                    "C20.entry_points_agree",
                    0,
                    i,
                    &outs[0],
                    &outs[i],
                    &format!("{} disagrees with {}", calls[i].api.name(), calls[0].api.name()),
                ));
                break;
            }
        }
        let c0 = calls[0];
        let text_has = |needle: &str| {
            sc.vfs.iter().any(|n| match n {
                VNode::File { bytes: Bytes::Text(t), .. } => t.contains(needle),
                _ => false,
            })
        };
        let has_both = text_has("`include") && (text_has("//") || text_has("/*"));
        let transparent = rep.fired.get("short_read").cloned().unwrap_or(0) + rep.fired.get("eintr").cloned().unwrap_or(0);
        // the parse_* wrappers fix strip_comments = false, so a swapped pair shows when ignore_include is set
        let flags_differ = if sc.family.starts_with("preprocess pair") {
            c0.ignore_include != c0.strip_comments
        } else {
            c0.ignore_include
        };
        if flags_differ && has_both {
            rep.probe("groups_flags_tf_or_ft", 1);
        }
        if transparent > 0 {
            rep.probe("transparent_fault_fired", 1);
        }
        if outs[0].digest.as_ref().map(|d| !d.is_ok()).unwrap_or(true) {
            rep.probe("opaque_condition", 1);
        } else {
            rep.probe("groups_ok", 1);
        }
        if sc.expect.get("deep_chain").is_some() {
            rep.probe("deep_chain_groups", 1);
        }
        if sc.family.contains("top-outside-cwd") {
            rep.probe("top_outside_cwd_groups", 1);
        }
        if sc.family.contains("top-unreadable") {
            rep.probe("top_unreadable_groups", 1);
        }
        if sc.family.starts_with("parse_lib quartet") {
            rep.probe("lib_groups", 1);
        } else if sc.family.starts_with("preprocess pair") {
            rep.probe("pp_pair_groups", 1);
        } else {
            rep.probe("sv_groups", 1);
        }
        rep.nontrivial = (flags_differ && has_both) || transparent > 0;
        rep.distinct_key = sc.hash();
        rep.sample = Some(serde_json::json!({
            "family": sc.family,
            "files": sc.vfs,
            "calls": calls.iter().map(|c| describe_call(c)).collect::<Vec<_>>(),
            "results": outs.iter().map(|o| o.short()).collect::<Vec<_>>(),
        }));
        rep
    }
}
