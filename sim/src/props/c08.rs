//! C08 — every entry point is total: Ok or a structured Error, never a panic.

use super::common::*;
use crate::exec::{exec, CallOutcome, ExecOpts, RunOutcome};
use crate::gen;
use crate::prop::{Property, RunReport};
use crate::rng::{run_seed, Rng};
use crate::scenario::*;
use crate::vfs::{Answer, Event};
use serde_json::json;

pub struct C08;

const CORRUPT_BYTES: &[u8] = &[b'`', b'"', b'\\', b'/', b'*', b'(', b')', 0, 0x80, 0xC3, 0xFF, b'\n'];

fn nesting(text: &str) -> usize {
    let mut depth: i64 = 0;
    let mut max = 0;
    for c in text.chars() {
        match c {
            '(' | '[' | '{' => {
                depth += 1;
                max = max.max(depth);
            }
            ')' | ']' | '}' => depth -= 1,
            _ => {}
        }
    }
    // begin/end, module/endmodule style nesting
    let mut d2: i64 = 0;
    let mut m2 = 0;
    for w in text.split(|c: char| !c.is_ascii_alphanumeric() && c != '_') {
        match w {
            "begin" | "fork" | "case" | "generate" | "module" | "function" | "task" => {
                d2 += 1;
                m2 = m2.max(d2);
            }
            "end" | "join" | "endcase" | "endgenerate" | "endmodule" | "endfunction" | "endtask" => d2 -= 1,
            _ => {}
        }
    }
    (max.max(m2)).max(0) as usize
}

fn file_list(sc: &Scenario) -> Vec<(String, usize)> {
    sc.vfs
        .iter()
        .filter_map(|n| match n {
            VNode::File { path, bytes } => Some((crate::vfs::normalise(&sc.cwd, path), bytes.len())),
            _ => None,
        })
        .collect()
}

/// all single faults of a scenario, in a fixed order
fn all_single_faults(sc: &Scenario) -> Vec<Fault> {
    let mut v = vec![];
    for (p, len) in file_list(sc) {
        for k in [FaultKind::Enoent, FaultKind::Eacces, FaultKind::Emfile, FaultKind::IsDir, FaultKind::InvalidUtf8Tail] {
            v.push(Fault { path: p.clone(), nth: Some(0), kind: k });
        }
        v.push(Fault { path: p.clone(), nth: Some(0), kind: FaultKind::ToctouVanish });
        v.push(Fault { path: p.clone(), nth: Some(0), kind: FaultKind::ToctouAppear });
        for k in 0..=len {
            v.push(Fault { path: p.clone(), nth: Some(0), kind: FaultKind::TruncateAt { k } });
        }
        for k in 0..len {
            for b in CORRUPT_BYTES {
                v.push(Fault { path: p.clone(), nth: Some(0), kind: FaultKind::Corrupt { k, byte: *b } });
            }
        }
        let step = (len / 16).max(1);
        let mut k = 0;
        while k <= len {
            v.push(Fault { path: p.clone(), nth: Some(0), kind: FaultKind::EioAt { k } });
            k += step;
        }
    }
    v
}

fn sample_faults(rng: &mut Rng, sc: &Scenario, n: usize, limit: &Option<Vec<String>>) -> Vec<Vec<Fault>> {
    let mut files = file_list(sc);
    if let Some(l) = limit {
        files.retain(|(p, _)| l.contains(p));
    }
    let mut out = vec![];
    if files.is_empty() {
        return out;
    }
    for _ in 0..n {
        let count = if rng.chance(1, 5) { 2 + rng.usize_below(2) } else { 1 };
        let mut fs = vec![];
        for _ in 0..count {
            let (p, len) = rng.pick(&files).clone();
            let kind = match rng.below(14) {
                0 => FaultKind::Enoent,
                1 => FaultKind::Eacces,
                2 => FaultKind::IsDir,
                3 => FaultKind::Emfile,
                4 | 5 | 6 => FaultKind::TruncateAt { k: rng.usize_below(len + 1) },
                7 | 8 | 9 => FaultKind::Corrupt { k: rng.usize_below(len.max(1)), byte: *rng.pick(CORRUPT_BYTES) },
                10 => FaultKind::EioAt { k: rng.usize_below(len + 1) },
                11 => FaultKind::InvalidUtf8Tail,
                12 => FaultKind::ToctouVanish,
                _ => FaultKind::ToctouAppear,
            };
            fs.push(Fault { path: p, nth: if rng.chance(1, 4) { None } else { Some(0) }, kind });
        }
        out.push(fs);
    }
    out
}

fn transparent_plan(rng: &mut Rng, sc: &Scenario) -> Vec<Fault> {
    let mut v = vec![];
    for (p, _) in file_list(sc) {
        let n = 1 + rng.usize_below(3);
        let chunks: Vec<usize> = (0..n).map(|_| *rng.pick(&[1usize, 1, 2, 3, 5, 8, 13])).collect();
        v.push(Fault { path: p.clone(), nth: None, kind: FaultKind::ShortRead { chunks } });
        if rng.coin() {
            v.push(Fault { path: p, nth: None, kind: FaultKind::Eintr { every: 1 + rng.usize_below(3) } });
        }
    }
    v
}

struct Judged {
    violation: Option<Violation>,
    out_of_claim: bool,
}

fn judge(sc: &Scenario, call: &Call, out: &RunOutcome, o: &CallOutcome) -> Judged {
    let mk = |clause: &str, kind: &str, expected: String, observed: String, detail: String| Violation {
        property: "C08".into(),
        clause: clause.into(),
        kind: kind.into(),
        thread: 0,
        call: 0,
        expected,
        observed,
        detail,
    };
    // what was delivered: out of claim if the nesting alone is extreme
    let mut deep = false;
    if let Some(t) = &call.text {
        deep |= nesting(t) > 64;
    }
    for n in &sc.vfs {
        if let VNode::File { bytes: Bytes::Text(t), .. } = n {
            deep |= nesting(t) > 64;
        }
    }
    if let Some(p) = &o.panic {
        if deep {
            return Judged { violation: None, out_of_claim: true };
        }
        // panic class: message up to the first digit, so shrinking keeps the same panic site
        let site = p.rsplit(" @ ").next().unwrap_or("").to_string();
        return Judged {
            violation: Some(mk(
                "C08.no_panic",
                "panic",
                "Ok or a value of the Error enum".into(),
                format!("PANIC {}", p.chars().take(300).collect::<String>()),
                format!("{} panicked at {}", call.api.name(), site),
            )),
            out_of_claim: false,
        };
    }
    if let Some(e) = &o.exercise_fail {
        return Judged {
            violation: Some(mk(
                "C08.tree_usable",
                "model-mismatch",
                "every token inside the text; iteration balanced".into(),
                e.clone(),
                "Display/Debug/get_str slice the text unchecked; a token outside it cannot return normally".into(),
            )),
            out_of_claim: false,
        };
    }
    let d = match &o.digest {
        Some(d) => d,
        None => return Judged { violation: None, out_of_claim: false },
    };
    // error shape dictated by the file-system conversation
    let fatal: Option<&Event> = out.log.iter().find(|e| match &e.answer {
        Answer::Err(_) if e.op == "open" => true,
        Answer::Stream { end, utf8, .. } => end != "eof" || !*utf8,
        _ => false,
    });
    if let Some(e) = fatal {
        let base = if call.api.reads_file() { 1 } else { 0 };
        let wrappers = e.file_depth.saturating_sub(base);
        let wrap = |inner: String| -> String {
            let mut s = inner;
            for _ in 0..wrappers {
                s = format!("Include({})", s);
            }
            s
        };
        let got = d.err.clone().unwrap_or_else(|| "Ok".to_string());
        match &e.answer {
            Answer::Err(kind) => {
                let want = wrap(format!("File({},{:?})", kind, std::path::PathBuf::from(&e.raw_path)));
                if got != want {
                    return Judged {
                        violation: Some(mk(
                            "C08.missing_file_shape",
                            "wrong-error-shape",
                            want,
                            got,
                            format!("open of {} failed at include depth {}: must be File naming the path tried, wrapped once per include level", e.raw_path, wrappers),
                        )),
                        out_of_claim: false,
                    };
                }
            }
            Answer::Stream { end, utf8, .. } => {
                if end == "eof" && !*utf8 {
                    let want = wrap(format!("ReadUtf8({:?})", std::path::PathBuf::from(&e.raw_path)));
                    if got != want {
                        return Judged {
                            violation: Some(mk(
                                "C08.non_utf8_shape",
                                "wrong-error-shape",
                                want,
                                got,
                                format!("{} delivered bytes that are not UTF-8: must be ReadUtf8 naming that file, wrapped once per include level", e.raw_path),
                            )),
                            out_of_claim: false,
                        };
                    }
                } else if d.is_ok() {
                    return Judged {
                        violation: Some(mk(
                            "C08.read_error_not_swallowed",
                            "wrong-error-shape",
                            "some Err".into(),
                            "Ok".into(),
                            format!("reading {} failed ({}), the call still returned Ok", e.raw_path, end),
                        )),
                        out_of_claim: false,
                    };
                }
            }
            _ => {}
        }
    }
    Judged { violation: None, out_of_claim: false }
}

impl Property for C08 {
    fn id(&self) -> &'static str {
        "C08"
    }
    fn level(&self) -> &'static str {
        "fault_enumeration"
    }
    fn runs(&self, tier: &str) -> u64 {
        if tier == "thorough" {
            600
        } else {
            2_400
        }
    }
    fn time_cap_s(&self, tier: &str) -> u64 {
        if tier == "thorough" {
            1500
        } else {
            150
        }
    }
    fn may_abort(&self) -> bool {
        true
    }
    fn rule(&self) -> String {
        "one run = one base scenario (valid multi-file program with include chain, a repo preprocessor testcase over its directory, a corpus snippet, or a mutated / token-soup text) and a batch of executions of it: the fault-free control, a transparent-fault control (short reads down to 1 byte, EINTR) whose digest must equal the control, and single faults / small fault sets on the file-system surface. quick: 24 sampled fault sets per run; thorough: EVERY single fault of the scenario: each file x {ENOENT, EACCES, EMFILE, is-a-directory, invalid UTF-8 tail, TOCTOU vanish/appear}, truncate_at(k) for every byte offset k, corrupt(k,b) for every k and b in 12 bytes, EIO at 17 offsets. Entry points: preprocess/parse_sv/parse_lib on the path, and the delivered top bytes through preprocess_str/parse_sv_str/parse_lib_str and the raw parsers, both allow_incomplete values; after an Ok the tree is iterated (plain and events), formatted with Display and Debug, every node converted with Locate::try_from, every token looked up with get_origin/get_str. Oracle: no panic, no process death; an Err caused by a failed open must be Include^d(File{path tried}), by non-UTF-8 bytes Include^d(ReadUtf8(file)), by a read error any Err. distinct = hash of the base scenario; a run is non-trivial iff at least one of its planned faults fired while a call was in flight (controls alone do not count)".into()
    }
    fn assumptions(&self) -> Vec<String> {
        vec![
            "allocation failure and signals are not modelled; a step budget stops runaway parses and such executions are counted, not judged".into(),
            "texts whose bracket/block nesting exceeds 64 are outside the claim (counted as out_of_claim)".into(),
            "arbitrary strings to the *_str entry points carry no fault; they are covered as far as mutated/soup texts and the delivered (truncated, corrupted) bytes are fed through them".into(),
        ]
    }
    fn required_probes(&self) -> Vec<&'static str> {
        vec!["faulted_execs", "control_execs", "transparent_execs", "ok_trees_exercised", "err_file_shape_checked", "err_utf8_shape_checked", "str_entry_execs", "soup_execs"]
    }

    fn generate(&self, seed: u64, run: u64, tier: &str) -> Scenario {
        let mut rng = Rng::new(run_seed(seed, "C08", run));
        let mut sc = Scenario::new("C08", seed, run, tier);
        let family = rng.below(10);
        let mut call;
        match family {
            0..=2 => {
                let rich = rng.coin();
                let prog = gen::pp_program(&mut rng, 4, rich);
                sc.vfs = prog.nodes;
                call = Call::new(*rng.pick(&[Api::ParseSv, Api::ParseSv, Api::Preprocess, Api::ParseLib]), "top.sv");
                call.include_paths = prog.include_paths;
                call.defines = prog.defines;
                sc.family = "program".into();
            }
            3 | 4 => {
                // a preprocessor testcase of the repository, over its directory
                let c = gen::corpus();
                let names: Vec<&String> = c.files.keys().filter(|k| k.starts_with("pp/") && !k.starts_with("pp/expected/")).collect();
                for k in &names {
                    let body = &c.files[*k];
                    let bytes = match (&body.text, &body.hex) {
                        (Some(t), _) => Bytes::Text(t.clone()),
                        (_, Some(h)) => Bytes::Hex(h.clone()),
                        _ => Bytes::Text(String::new()),
                    };
                    sc.vfs.push(VNode::File { path: format!("/w/{}", &k[3..]), bytes });
                }
                let pick = rng.pick(&names);
                call = Call::new(*rng.pick(&[Api::Preprocess, Api::ParseSv, Api::ParseSv]), &pick[3..]);
                call.include_paths = vec!["/w".into()];
                // enumerate over the chosen file and what it includes only
                let keep: Vec<String> = vec![format!("/w/{}", &pick[3..]), "/w/included.svh".into(), "/w/include_recursive.svh".into()];
                sc.expect = json!({ "fault_files": keep });
                sc.family = "repo-testcase".into();
            }
            5 => {
                let text = if rng.coin() { gen::corpus_sv(&mut rng, 1200).to_string() } else { gen::corpus_lib(&mut rng).to_string() };
                sc.vfs.push(VNode::file("/w/top.sv", &text));
                call = Call::new(*rng.pick(&[Api::ParseSv, Api::ParseLib]), "top.sv");
                sc.family = "corpus".into();
            }
            6 | 7 | 8 => {
                let base = match rng.below(13) {
                    11 | 12 => gen::lib_program(&mut rng),
                    9 | 10 => gen::repeated_construct(&mut rng),
                    4..=8 => gen::macro_program(&mut rng),
                    0 => gen::corpus_sv(&mut rng, 800).to_string(),
                    1 => gen::polluter(&mut rng),
                    2 => {
                        let k = 1 + rng.usize_below(3);
                        gen::sv_program(&mut rng, k)
                    }
                    _ => {
                        let c = gen::corpus();
                        let names: Vec<&String> = c.files.keys().filter(|k| k.starts_with("pp/") && !k.starts_with("pp/expected/")).collect();
                        c.files[*rng.pick(&names)].text.clone().unwrap_or_default()
                    }
                };
                let text = if rng.chance(1, 3) { base } else { gen::mutate(&mut rng, &base) };
                sc.vfs.push(VNode::file("/w/top.sv", &text));
                sc.vfs.push(VNode::file("/w/included.svh", "wire inc;\n`define M0 inc0\n"));
                sc.vfs.push(VNode::file("/w/f", "`M1\n"));
                call = Call::new(*rng.pick(&[Api::ParseSv, Api::ParseLib, Api::Preprocess]), "top.sv");
                call.include_paths = vec!["/w".into()];
                sc.family = "mutated".into();
            }
            _ => {
                let n = 1 + rng.usize_below(40);
                let text = gen::token_soup(&mut rng, n);
                sc.vfs.push(VNode::file("/w/top.sv", &text));
                sc.vfs.push(VNode::file("/w/f", "`define X 1\n"));
                call = Call::new(*rng.pick(&[Api::ParseSv, Api::ParseLib, Api::Preprocess]), "top.sv");
                sc.family = "soup".into();
            }
        }
        // odd but legal environments: search path entries that are empty, a file, or missing; an include
        // target that is a dangling or looping symbolic link; the path argument naming a directory
        if rng.chance(1, 6) {
            let extra = *rng.pick(&["", ".", "/w/top.sv", "/nonexistent", "/w/../w", "/inc1/"]);
            let at = rng.usize_below(call.include_paths.len() + 1);
            call.include_paths.insert(at, extra.to_string());
        }
        if rng.chance(1, 12) {
            let victims: Vec<String> = sc.vfs.iter().map(|n| n.path().to_string()).filter(|p| p.ends_with(".svh")).collect();
            if !victims.is_empty() {
                let v = rng.pick(&victims).clone();
                sc.vfs.retain(|n| n.path() != v);
                let target = if rng.coin() { v.rsplit('/').next().unwrap_or("x").to_string() } else { "gone.svh".to_string() };
                sc.vfs.push(VNode::Symlink { path: v, target });
                sc.family = format!("{}+symlink", sc.family);
            }
        }
        if rng.chance(1, 40) {
            call.path = "/w".to_string();
        }
        call.hash_seed = rng.next();
        call.allow_incomplete = rng.coin();
        call.ignore_include = rng.chance(1, 8);
        call.strip_comments = rng.chance(1, 4);
        if rng.chance(1, 4) {
            call.defines.extend(gen::define_table(&mut rng));
        }
        sc.threads = vec![vec![Op::Call(call)]];
        let mut e = sc.expect.take();
        if !e.is_object() {
            e = json!({});
        }
        e["mode"] = json!(if tier == "thorough" { "all" } else { "sample" });
        e["fault_seed"] = json!(rng.next());
        sc.expect = e;
        sc
    }

    fn valid(&self, sc: &Scenario) -> bool {
        sc.calls().count() == 1
    }

    fn check(&self, sc: &Scenario) -> RunReport {
        let mut rep = RunReport::default();
        let opts = ExecOpts { exercise_tree: true };
        let base_call = match sc.calls().next() {
            Some(c) => c.clone(),
            None => return rep,
        };
        let mode = sc.expect["mode"].as_str().unwrap_or("single").to_string();
        let mut rng = Rng::new(sc.expect["fault_seed"].as_u64().unwrap_or(1));
        let limit_files: Option<Vec<String>> = sc.expect["fault_files"]
            .as_array()
            .map(|a| a.iter().filter_map(|x| x.as_str().map(|s| s.to_string())).collect());

        // the list of executions: (label, call)
        let mut plan: Vec<(&'static str, Call)> = vec![];
        if mode == "single" {
            plan.push(("single", base_call.clone()));
        } else {
            let mut control = base_call.clone();
            control.faults.clear();
            plan.push(("control", control.clone()));
            let mut tr = control.clone();
            tr.faults = transparent_plan(&mut rng, sc);
            plan.push(("transparent", tr));
            // the delivered top bytes through the string entry points
            for api in [Api::PreprocessStr, Api::ParseSvStr, Api::ParseLibStr, Api::RawSv, Api::RawLibIncomplete, Api::RawPp] {
                for inc in [false, true] {
                    let mut c = control.clone();
                    c.api = api;
                    c.allow_incomplete = inc;
                    c.text = None; // read from the file system at call time
                    plan.push(("str", c));
                }
            }
            let sets: Vec<Vec<Fault>> = if mode == "all" {
                let mut v: Vec<Vec<Fault>> = all_single_faults(sc).into_iter().map(|f| vec![f]).collect();
                if let Some(lim) = &limit_files {
                    v.retain(|fs| lim.contains(&fs[0].path));
                }
                // bound the per-run work: large files contribute a stride of their offsets
                let cap = 6000;
                if v.len() > cap {
                    let stride = v.len() / cap + 1;
                    let off = rng.usize_below(stride);
                    v = v.into_iter().enumerate().filter(|(i, _)| i % stride == off).map(|(_, x)| x).collect();
                    rep.probe("enumeration_strided", 1);
                } else {
                    rep.probe("enumeration_complete", 1);
                }
                v.extend(sample_faults(&mut rng, sc, 16, &limit_files));
                v
            } else {
                sample_faults(&mut rng, sc, 24, &limit_files)
            };
            for fs in sets {
                let mut c = control.clone();
                c.faults = fs;
                plan.push(("fault", c));
            }
        }

        let mut control_digest: Option<String> = None;
        for (label, call) in plan {
            let mut one = sc.clone();
            one.threads = vec![vec![Op::Call(call.clone())]];
            // the string entry points get the bytes a fault-free read delivers
            let out = exec(&one, &opts);
            rep.execs += 1;
            rep.steps += out.steps;
            rep.fire(&out.fired);
            if let Some(e) = &out.harness_error {
                rep.harness_error = Some(e.clone());
                return rep;
            }
            let o = match out.calls.first() {
                Some(o) => o,
                None => {
                    rep.harness_error = Some("no outcome".into());
                    return rep;
                }
            };
            match label {
                "control" => {
                    control_digest = Some(o.short());
                    rep.probe("control_execs", 1);
                }
                "transparent" => {
                    rep.probe("transparent_execs", 1);
                    if let Some(cd) = &control_digest {
                        if *cd != o.short() && rep.violations.is_empty() && !o.budget_exceeded {
                            let mut frozen = one.clone();
                            frozen.expect = json!({"mode": "pair"});
                            rep.violations.push(Violation {
                                property: "C08".into(),
                                clause: "C08.transparent_faults".into(),
                                kind: "digest-mismatch".into(),
                                thread: 0,
                                call: 0,
                                expected: cd.clone(),
                                observed: o.short(),
                                detail: "short reads / EINTR changed the result".into(),
                            });
                            // replay as a two-call scenario: control then transparent
                            let mut control = call.clone();
                            control.faults.clear();
                            frozen.threads = vec![vec![Op::Call(control), Op::Call(call.clone())]];
                            rep.replay_scenario = Some(frozen);
                        }
                    }
                }
                "str" => rep.probe("str_entry_execs", 1),
                "fault" | "single" => {
                    if !out.fired.is_empty() {
                        rep.probe("faulted_execs", 1);
                    } else {
                        rep.probe("fault_not_reached", 1);
                    }
                }
                _ => {}
            }
            if sc.family == "soup" || sc.family == "mutated" {
                rep.probe("soup_execs", 1);
            }
            if o.budget_exceeded {
                rep.probe("budget_skipped", 1);
                continue;
            }
            if let Some(d) = &o.digest {
                if d.is_ok() && !call.api.is_raw() && call.api != Api::Preprocess && call.api != Api::PreprocessStr {
                    rep.probe("ok_trees_exercised", 1);
                }
                if let Some(e) = &d.err {
                    if e.contains("File(") {
                        rep.probe("err_file_shape_checked", 1);
                    }
                    if e.contains("ReadUtf8(") {
                        rep.probe("err_utf8_shape_checked", 1);
                    }
                }
            }
            let j = judge(&one, &call, &out, o);
            if j.out_of_claim {
                rep.probe("out_of_claim", 1);
            }
            if let Some(v) = j.violation {
                if rep.violations.is_empty() {
                    let mut frozen = one.clone();
                    frozen.expect = json!({"mode": "single"});
                    // freeze the text a string entry point received
                    if !call.api.reads_file() && call.text.is_none() {
                        if let Op::Call(c) = &mut frozen.threads[0][0] {
                            let vfs = crate::vfs::Vfs::new(&sc.cwd, &sc.vfs, 16);
                            c.text = vfs.peek(&call.path).map(|b| String::from_utf8_lossy(&b).to_string());
                        }
                    }
                    rep.violations.push(v);
                    rep.replay_scenario = Some(frozen);
                }
            }
        }
        if mode == "pair" {
            // replay form of a transparent-fault violation
            let calls: Vec<Call> = sc.calls().cloned().collect();
            if calls.len() == 2 {
                let mut outs = vec![];
                for c in &calls {
                    let mut one = sc.clone();
                    one.threads = vec![vec![Op::Call(c.clone())]];
                    let out = exec(&one, &opts);
                    rep.execs += 1;
                    outs.push(out.calls.first().map(|o| o.short()).unwrap_or_default());
                }
                if outs[0] != outs[1] {
                    rep.violations.push(Violation {
                        property: "C08".into(),
                        clause: "C08.transparent_faults".into(),
                        kind: "digest-mismatch".into(),
                        thread: 0,
                        call: 0,
                        expected: outs[0].clone(),
                        observed: outs[1].clone(),
                        detail: "short reads / EINTR changed the result".into(),
                    });
                }
            }
        }
        // a run counts only if at least one planned fault actually fired while a call was in flight
        rep.nontrivial = rep.probes.get("faulted_execs").cloned().unwrap_or(0) > 0;
        rep.distinct_key = sc.hash();
        rep.sample = Some(json!({
            "family": sc.family,
            "files": sc.vfs.iter().take(3).collect::<Vec<_>>(),
            "call": describe_call(&base_call),
            "mode": mode,
            "executions_in_this_run": rep.execs,
        }));
        rep
    }
}
