//! C09 — recursion is bounded: cycles end in ExceedRecursiveLimit, legal depths work.

use super::common::*;
use crate::exec::{exec, ExecOpts};
use crate::prop::{Property, RunReport};
use crate::rng::{run_seed, Rng};
use crate::scenario::*;
use serde_json::json;

pub struct C09;

pub const MECHANISMS: &[&str] = &[
    "macro",               // `define Mi `M(i+1)
    "include",             // file i includes file i+1
    "macro_body_include",  // `define Xi `include "f(i+1)"   then `Xi
    "include_macro_name",  // `define Ni "f(i+1)"  then `include `Ni
    "alternating",         // `define Pi `Qi / `define Qi `include "f(i+1)" / `Pi
    "macro_args",          // function-like macros: `define Mi(a) `M(i+1)(a)
    "include_angle",       // `include <f(i+1)>
    "self_top",            // the top file itself takes part in the include cycle / chain through a search dir
    "guarded_reentry",     // a macro expands to an `include of a guarded header that uses the same macro again
    "include_name_alias",  // `include `N1 where N1 -> N2 -> ... are object-like aliases ending in the quoted name
    "macro_paren",         // `define A a / `define Mi `A(`M(i+1)): recursion through the restored parenthesis of an argument-less macro
];

pub const CYCLES: u64 = 8; // cycle lengths 1..=8
pub const CHAINS: u64 = 80; // chain depths 1..=80
pub const SHAPES: u64 = CYCLES + CHAINS;
pub const LIMIT: u64 = 64;

fn filler(rng: &mut Rng) -> String {
    match rng.below(5) {
        0 => "// filler comment\n".into(),
        1 => "/* block */\n".into(),
        2 => format!("wire w{};\n", rng.below(100)),
        3 => "\n".into(),
        _ => String::new(),
    }
}

/// name of level i's file; level 0 is the top file
fn fname(i: u64) -> String {
    if i == 0 {
        "top.sv".to_string()
    } else {
        format!("f{}.svh", i)
    }
}

struct Built {
    nodes: Vec<VNode>,
    /// nested macro expansion levels / nested include levels of the deepest point (chains)
    macro_levels: u64,
    include_levels: u64,
}

/// Renames the level macros `M<i>` / `N<i>` (whole identifiers only) so that the names of neighbouring levels overlap.
fn rename_levels(text: &str, scheme: u64) -> String {
    let b = text.as_bytes();
    let is_id = |c: u8| c.is_ascii_alphanumeric() || c == b'_' || c == b'$';
    let mut out = String::with_capacity(text.len() + 64);
    let mut i = 0;
    while i < b.len() {
        if is_id(b[i]) && (i == 0 || !is_id(b[i - 1])) {
            let mut j = i;
            while j < b.len() && is_id(b[j]) {
                j += 1;
            }
            let id = &text[i..j];
            let num = if (id.starts_with('M') || id.starts_with('N')) && id.len() > 1 && id.len() < 6 && id[1..].bytes().all(|c| c.is_ascii_digit()) {
                id[1..].parse::<usize>().ok()
            } else {
                None
            };
            match num {
                Some(k) => {
                    let head = &id[..1];
                    match scheme {
                        1 => out.push_str(&format!("{}{}", head, "x".repeat(k))),
                        2 => out.push_str(&format!("{}{}", head, "x".repeat(120usize.saturating_sub(k)))),
                        _ => {
                            if k % 2 == 1 {
                                out.push_str(&format!("{}L{}", head, k))
                            } else {
                                out.push_str(&format!("{}L{}_IMPL", head, k - 1))
                            }
                        }
                    }
                }
                None => out.push_str(id),
            }
            i = j;
        } else {
            // copy one whole character (the text may hold non-ASCII filler)
            let ch = text[i..].chars().next().unwrap();
            out.push(ch);
            i += ch.len_utf8();
        }
    }
    out
}

/// `refs[i]` = the level that level i refers to (None: level i holds the leaf marker).
/// Macro mechanisms: levels 1.. are macros of the top file. File mechanisms: level 0 is the top file.
fn build(mech: &str, refs: &[Option<u64>], marker: &str, rng: &mut Rng, dirs: &[String]) -> Built {
    let mut nodes = vec![];
    let leaf = format!("{};\n", marker);
    let levels = refs.len() as u64 - 1;
    match mech {
        "macro" | "macro_args" => {
            let mut t = filler(rng);
            for i in 1..=levels {
                let body = match refs[i as usize] {
                    Some(j) => {
                        if mech == "macro" {
                            format!("`M{}", j)
                        } else {
                            format!("`M{}(a)", j)
                        }
                    }
                    None => marker.to_string(),
                };
                if mech == "macro" {
                    t.push_str(&format!("`define M{} {}\n", i, body));
                } else {
                    t.push_str(&format!("`define M{}(a) {}\n", i, body));
                }
                if rng.chance(1, 6) {
                    t.push_str(&filler(rng));
                }
            }
            t.push_str(if mech == "macro" { "`M1 ;\n" } else { "`M1(x) ;\n" });
            t.push_str(&filler(rng));
            nodes.push(VNode::file("/w/top.sv", &t));
            Built { nodes, macro_levels: levels, include_levels: 0 }
        }
        "macro_paren" => {
            let mut t = filler(rng);
            t.push_str("`define A a\n");
            for i in 1..=levels {
                match refs[i as usize] {
                    Some(j) => t.push_str(&format!("`define M{} `A(`M{})\n", i, j)),
                    None => t.push_str(&format!("`define M{} `A({})\n", i, marker)),
                }
            }
            t.push_str("`M1 ;\n");
            t.push_str(&filler(rng));
            nodes.push(VNode::file("/w/top.sv", &t));
            // every step costs two expansion levels: Mi, then A whose parenthesis is re-scanned
            Built { nodes, macro_levels: 2 * levels, include_levels: 0 }
        }
        "include_name_alias" => {
            // everything in the top file; the include name is reached through `levels` alias hops
            let mut t = filler(rng);
            for i in 1..=levels {
                match refs[i as usize] {
                    Some(j) => t.push_str(&format!("`define N{} `N{}\n", i, j)),
                    None => t.push_str(&format!("`define N{} \"leaf.svh\"\n", i)),
                }
            }
            t.push_str("`include `N1\n");
            t.push_str(&filler(rng));
            nodes.push(VNode::file("/w/top.sv", &t));
            let p = if dirs.is_empty() || rng.coin() { "/w/leaf.svh".to_string() } else { format!("{}/leaf.svh", rng.pick(dirs)) };
            nodes.push(VNode::file(&p, &leaf));
            // the name resolution itself starts one expansion level down
            Built { nodes, macro_levels: levels + 1, include_levels: 1 }
        }
        "guarded_reentry" => {
            // top: `define INC `include "g.svh" / `INC ; g.svh re-uses `INC under `ifndef guards.
            // chain of depth n: n guard levels, then the leaf; cycle: the header re-enters itself unguarded
            let is_cycle = refs.iter().all(|r| r.is_some());
            let mut t = filler(rng);
            t.push_str("`define INC `include \"g.svh\"\n");
            if !is_cycle {
                for i in 1..levels {
                    t.push_str(&format!("`define TODO{}\n", i));
                }
            }
            t.push_str("`INC\n");
            t.push_str(&filler(rng));
            nodes.push(VNode::file("/w/top.sv", &t));
            let mut g = String::new();
            if is_cycle {
                g.push_str(&filler(rng));
                g.push_str("`INC\n");
            } else if levels <= 1 {
                g.push_str(&leaf);
            } else {
                // a FLAT conditional (no textual nesting): each visit consumes the first pending marker and
                // re-enters; the visit that finds none emits the leaf
                for i in 1..levels {
                    g.push_str(&format!("`{} TODO{}\n`undef TODO{}\n`INC\n", if i == 1 { "ifdef" } else { "elsif" }, i, i));
                }
                g.push_str("`else\n");
                g.push_str(&leaf);
                g.push_str("`endif\n");
            }
            let p = if dirs.is_empty() || rng.coin() { "/w/g.svh".to_string() } else { format!("{}/g.svh", rng.pick(dirs)) };
            nodes.push(VNode::file(&p, &g));
            Built { nodes, macro_levels: levels, include_levels: levels }
        }
        _ => {
            let refer = |i: u64, j: u64| -> String {
                let n = fname(j);
                match mech {
                    "include" => format!("`include \"{}\"\n", n),
                    "self_top" => format!("`include \"./{}\"\n", n),
                    "include_angle" => format!("`include <{}>\n", n),
                    "macro_body_include" => format!("`define X{} `include \"{}\"\n`X{}\n", i, n, i),
                    "include_macro_name" => format!("`define N{} \"{}\"\n`include `N{}\n", i, n, i),
                    _ => format!("`define P{} `Q{}\n`define Q{} `include \"{}\"\n`P{}\n", i, i, i, n, i),
                }
            };
            for i in 0..=levels {
                let mut t = filler(rng);
                match refs[i as usize] {
                    Some(j) => t.push_str(&refer(i, j)),
                    None => t.push_str(&leaf),
                }
                t.push_str(&filler(rng));
                let name = fname(i);
                // where a file lives: cwd or one of the search dirs (decoration; the top file is in cwd;
                // "./name" references only resolve through cwd)
                let p = if i == 0 || dirs.is_empty() || mech == "self_top" || rng.chance(1, 3) {
                    format!("/w/{}", name)
                } else {
                    format!("{}/{}", rng.pick(dirs), name)
                };
                nodes.push(VNode::file(&p, &t));
            }
            let ml = match mech {
                "macro_body_include" => levels,
                "include_macro_name" => 1,
                "alternating" => 2 * levels,
                _ => 0,
            };
            Built { nodes, macro_levels: ml, include_levels: levels }
        }
    }
}

impl C09 {
    pub fn base_cases() -> u64 {
        MECHANISMS.len() as u64 * SHAPES
    }
}

impl Property for C09 {
    fn id(&self) -> &'static str {
        "C09"
    }
    fn level(&self) -> &'static str {
        "exploration"
    }
    fn runs(&self, tier: &str) -> u64 {
        // the structured family is enumerated completely; tiers differ in the decorations sampled around it
        if tier == "thorough" {
            C09::base_cases() * 60
        } else {
            C09::base_cases() * 2
        }
    }
    fn exhaustive(&self, _tier: &str) -> bool {
        true
    }
    fn may_abort(&self) -> bool {
        true
    }
    fn rule(&self) -> String {
        format!("structured family enumerated completely: mechanism in {:?} x shape in (cycle of length 1..{} | chain of depth 1..{}) = {} base cases, each repeated with sampled decorations (filler text, placement of files in cwd/search dirs, strip_comments, entry point preprocess/preprocess_str, caller stack 2/8/256 MiB). Oracle: a chain whose nested macro levels and nested include levels are both <= 64 must return Ok with the leaf marker exactly once outside kept `define lines; every cycle must return Err whose innermost error is ExceedRecursiveLimit wrapped in exactly one Include per file-inclusion level entered (measured by the FileScope probe); a deeper finite chain may do either; every run must finish within {} steps and {} opens and must not kill its worker process. distinct = (mechanism, shape, depth, stack, entry); non-trivial iff depth >= 2 or a cycle", MECHANISMS, CYCLES, CHAINS, C09::base_cases(), 4_000_000u64, 4096)
    }
    fn assumptions(&self) -> Vec<String> {
        vec![
            "stack exhaustion is observed as the death of the worker process running the scenario; the controller then replays the scenario alone in a child process".into(),
            "a caller stack of at least 2 MiB (the std::thread default) is assumed by the claim".into(),
            "hooks faithful (repo tests pass guard on/off)".into(),
        ]
    }
    fn required_probes(&self) -> Vec<&'static str> {
        vec!["chain_depth64_ok", "cycle_err", "stack_2mib", "entry_preprocess_str", "history_failing_calls"]
    }

    fn generate(&self, seed: u64, run: u64, tier: &str) -> Scenario {
        let mut rng = Rng::new(run_seed(seed, "C09", run));
        let mut sc = Scenario::new("C09", seed, run, tier);
        let base = run % C09::base_cases();
        let rep = run / C09::base_cases();
        let mech = MECHANISMS[(base / SHAPES) as usize];
        let shape = base % SHAPES;
        let (is_cycle, n) = if shape < CYCLES { (true, shape + 1) } else { (false, shape - CYCLES + 1) };
        let marker = format!("leaf_marker_{}", run);
        let dirs: Vec<String> = match rng.below(3) {
            0 => vec![],
            1 => vec!["/inc1".to_string()],
            _ => vec!["/inc1".to_string(), "/inc2".to_string()],
        };
        let is_macro = mech == "macro" || mech == "macro_args" || mech == "include_name_alias" || mech == "macro_paren";
        let refs: Vec<Option<u64>> = if is_cycle {
            let l = n;
            if is_macro {
                // macros 1..=l, Ml -> M1 (index 0 unused)
                (0..=l).map(|i| if i == 0 { Some(1) } else if i == l { Some(1) } else { Some(i + 1) }).collect()
            } else if mech == "self_top" {
                // files 0..=l-1, the last one includes the top file again
                (0..l).map(|i| if i == l - 1 { Some(0) } else { Some(i + 1) }).collect()
            } else {
                // top -> 1 -> ... -> l -> 1
                (0..=l).map(|i| if i == l { Some(1) } else { Some(i + 1) }).collect()
            }
        } else {
            (0..=n).map(|i| if i == n { None } else { Some(i + 1) }).collect()
        };
        let built = build(mech, &refs, &marker, &mut rng, &dirs);
        sc.vfs = built.nodes;
        // decoration: a short macro chain carrying a very large text (more than 1 MiB in one expansion step)
        let mut heavy = false;
        if mech == "macro" && !is_cycle && n <= 3 && rng.chance(1, 2) {
            heavy = true;
            let big = format!("{} {}", marker, "x ".repeat(560_000 + rng.usize_below(200_000)));
            for node in sc.vfs.iter_mut() {
                if let VNode::File { path, bytes: Bytes::Text(t) } = node {
                    if path == "/w/top.sv" {
                        *t = t.replacen(&format!(" {}\n", marker), &format!(" {}\n", big), 1);
                    }
                }
            }
            sc.knobs.step_budget = 40_000_000;
            sc.family = "heavy".into();
        }
        // decoration: k sibling (sequential, not nested) includes and expansions before the structure: the
        // depth counters must not accumulate over siblings
        if rng.chance(1, 4) {
            let k = 1 + rng.below(70);
            let kind = rng.below(3);
            let mut pre = String::new();
            for i in 0..k {
                match kind {
                    0 => pre.push_str(&format!("`define SN{} \"sib.svh\"\n`include `SN{}\n", i % 3, i % 3)),
                    1 => pre.push_str("`include \"sib.svh\"\n"),
                    _ => pre.push_str(&format!("`define SM{} s{}\n`SM{} ;\n", i % 3, i, i % 3)),
                }
            }
            for n in sc.vfs.iter_mut() {
                if let VNode::File { path, bytes: Bytes::Text(t) } = n {
                    if path == "/w/top.sv" {
                        *t = format!("{}{}", pre, t);
                    }
                }
            }
            sc.vfs.push(VNode::file("/w/sib.svh", "// sibling header\nsib;\n"));
            // when the top file is itself part of the cycle, every one of the (at most 64+1) legal levels opens the k
            // sibling headers again: the budget of opens that still counts as "bounded" grows with k
            // (VERIF_SEED=48 run 616 tripped the fixed budget of 4096 with k=69 on the unchanged tree: 64 x 70 opens)
            sc.knobs.open_budget = sc.knobs.open_budget.max(4096 + 70 * (k + 1));
            sc.family = "siblings".into();
        }
        // decoration: the same file present at several search locations (identical content), a directory listed twice
        let mut dirs = dirs;
        if !dirs.is_empty() && rng.chance(1, 3) {
            let extra: Vec<VNode> = sc
                .vfs
                .iter()
                .filter_map(|n| match n {
                    VNode::File { path, bytes } if !path.ends_with("/top.sv") => {
                        let name = path.rsplit('/').next().unwrap_or("");
                        let d = rng.pick(&dirs).clone();
                        let p = format!("{}/{}", d, name);
                        if p != *path { Some(VNode::File { path: p, bytes: bytes.clone() }) } else { None }
                    }
                    _ => None,
                })
                .collect();
            let have: Vec<String> = sc.vfs.iter().map(|n| n.path().to_string()).collect();
            for e in extra {
                if !have.contains(&e.path().to_string()) && !sc.vfs.iter().any(|n| n.path() == e.path()) {
                    sc.vfs.push(e);
                }
            }
            if rng.coin() {
                let d = dirs[0].clone();
                dirs.push(d);
            }
        }
        // decoration: level names that overlap textually (a level's name is a prefix of / extends / is the stem of the
        // name it refers to). The names carry no meaning, so every verdict is unchanged. Drawn from a stream of its
        // own so that the other decorations keep their values (C09-r7a: a "self-reference" shortcut that matches
        // the macro's own name inside its text as a substring)
        let mut names = "";
        {
            let mut nrng = Rng::new(run_seed(seed, "C09-names", run));
            if is_macro && nrng.chance(1, 3) {
                let scheme = 1 + nrng.below(3);
                names = match scheme {
                    1 => "+names-extending",
                    2 => "+names-shrinking",
                    _ => "+names-stem-impl",
                };
                for node in sc.vfs.iter_mut() {
                    if let VNode::File { bytes: Bytes::Text(t), .. } = node {
                        *t = rename_levels(t, scheme);
                    }
                }
            }
        }
        sc.knobs.stack_mib = match (rep + base) % 3 {
            0 => 2,
            1 => 8,
            _ => 256,
        };
        let use_str = rng.chance(1, 4);
        // the one-step parse routes must report the same shapes (incomplete mode: the expanded text need not be SystemVerilog)
        let api = if use_str {
            Api::PreprocessStr
        } else if heavy {
            Api::Preprocess
        } else {
            *rng.pick(&[Api::Preprocess, Api::Preprocess, Api::Preprocess, Api::ParseSv, Api::ParseLib])
        };
        let mut c = Call::new(api, "top.sv");
        c.allow_incomplete = true;
        c.include_paths = dirs.clone();
        c.strip_comments = rng.chance(1, 4);
        // where no file is involved the flag must not matter
        if mech == "macro" || mech == "macro_args" || mech == "macro_paren" {
            c.ignore_include = rng.chance(1, 3);
        }
        c.hash_seed = rng.next();
        // "for every call": a third of the runs put 1..4 failing (cyclic) calls on the same thread first
        let mut ops = vec![];
        let mut prefix = 0;
        if rng.chance(1, 3) {
            prefix = 1 + rng.below(4);
            for i in 0..prefix {
                if rng.coin() {
                    let p = format!("/q{}/self.sv", i);
                    sc.vfs.push(VNode::file(&p, &format!("// cycle\n`include \"{}\"\n", p)));
                    ops.push(Op::Call(Call::new(Api::Preprocess, &p)));
                } else {
                    let mut pc = Call::new(Api::PreprocessStr, "cyc.sv");
                    pc.text = Some("`define A `B\n`define B `A\n`A\n".to_string());
                    ops.push(Op::Call(pc));
                }
            }
        }
        ops.push(Op::Call(c));
        sc.threads = vec![ops];
        let sib = if heavy { "+heavy-payload" } else if sc.family == "siblings" { "+siblings" } else { "" };
        sc.family = format!("{}:{}{}{}{}", mech, if is_cycle { "cycle" } else { "chain" }, n, if prefix > 0 { format!("+after{}failing", prefix) } else { String::new() }, format!("{}{}", sib, names));
        sc.expect = json!({
            "mechanism": mech,
            "shape": if is_cycle { "cycle" } else { "chain" },
            "n": n,
            "marker": marker,
            "macro_levels": built.macro_levels,
            "include_levels": built.include_levels,
        });
        sc
    }

    fn valid(&self, sc: &Scenario) -> bool {
        // the expectation is computed by the generator: shrinking may drop history calls and change the
        // stack size, but the recursion structure and the judged call must stay what generate() built
        if sc.calls().count() < 1 || sc.expect.get("shape").is_none() {
            return false;
        }
        let fresh = self.generate(sc.seed, sc.run, &sc.tier);
        let main_files = |x: &Scenario| -> Vec<VNode> { x.vfs.iter().filter(|n| !n.path().starts_with("/q")).cloned().collect() };
        fresh.expect == sc.expect && main_files(&fresh) == main_files(sc) && fresh.calls().last() == sc.calls().last()
    }

    fn shrink(&self, sc: &Scenario) -> Vec<Scenario> {
        // a larger caller stack never makes a violation appear; try the smallest first is not sound, keep knobs
        let mut out = vec![];
        if sc.knobs.stack_mib != 2 {
            let mut c = sc.clone();
            c.knobs.stack_mib = 2;
            out.push(c);
        }
        out
    }

    fn check(&self, sc: &Scenario) -> RunReport {
        let mut rep = RunReport::default();
        let out = exec(sc, &ExecOpts::default());
        rep.execs += 1;
        rep.steps += out.steps;
        rep.fire(&out.fired);
        if let Some(e) = &out.harness_error {
            rep.harness_error = Some(e.clone());
            return rep;
        }
        if let Some(a) = &out.aborted {
            let mut v = crate::runner::abort_violation("C09", a);
            if a.starts_with("watchdog") {
                v.clause = "C09.terminates".into();
                v.kind = "hang".into();
                v.detail = format!("{}: the call did not return and made no step (a loop without any grammar terminal or file operation)", sc.family);
            }
            rep.violations.push(v);
            rep.probe("aborted_executions", 1);
            rep.distinct_key = crate::rng::fnv(format!("{}|{}", sc.family, sc.knobs.stack_mib).as_bytes());
            rep.nontrivial = true;
            return rep;
        }
        // the judged call is the last one; calls before it are the failing history
        let o = match out.calls.last() {
            Some(o) => o,
            None => {
                rep.harness_error = Some("no outcome".into());
                return rep;
            }
        };
        let call = sc.calls().last().unwrap();
        for (i, pre) in out.calls.iter().enumerate().take(out.calls.len().saturating_sub(1)) {
            let ok = pre.digest.as_ref().and_then(|d| d.err.as_ref()).map(|e| e.contains("ExceedRecursiveLimit")).unwrap_or(false);
            if !ok {
                rep.violations.push(Violation {
                    property: "C09".into(),
                    clause: "C09.cycle_ends_in_limit_error".into(),
                    kind: "wrong-error-shape".into(),
                    thread: 0,
                    call: i,
                    expected: "Err(..ExceedRecursiveLimit)".into(),
                    observed: pre.short(),
                    detail: "a cyclic call of the history did not end in ExceedRecursiveLimit".into(),
                });
                break;
            }
            rep.probe("history_failing_calls", 1);
        }
        let shape = sc.expect["shape"].as_str().unwrap_or("");
        let n = sc.expect["n"].as_u64().unwrap_or(0);
        let marker = sc.expect["marker"].as_str().unwrap_or("leaf_marker");
        let ml = sc.expect["macro_levels"].as_u64().unwrap_or(0);
        let il = sc.expect["include_levels"].as_u64().unwrap_or(0);
        let mut fail = |clause: &str, kind: &str, expected: String, observed: String, detail: String| {
            if rep.violations.is_empty() {
                rep.violations.push(Violation {
                    property: "C09".into(),
                    clause: clause.into(),
                    kind: kind.into(),
                    thread: 0,
                    call: 0,
                    expected,
                    observed,
                    detail,
                });
            }
        };
        if let Some(p) = &o.panic {
            fail("C09.terminates", "panic", "Ok or Err".into(), format!("PANIC {}", p), format!("{} panicked", sc.family));
        } else if o.budget_exceeded || out.open_budget_tripped {
            fail(
                "C09.bounded_progress",
                "budget-exhausted",
                format!("termination within {} steps and {} opens", sc.knobs.step_budget, sc.knobs.open_budget),
                format!("budget exhausted after {} steps, max include nesting {} max macro nesting {}", out.steps, o.max_file_depth, o.max_macro_depth),
                format!("{}: recursion is not bounded by the limit of {}", sc.family, LIMIT),
            );
        } else if let Some(d) = &o.digest {
            let err_line = format!("ERR {}", d.err.clone().unwrap_or_default());
            if shape == "cycle" {
                // expected: Include^k(ExceedRecursiveLimit), k = include levels entered
                // include levels entered where the call stopped descending (not the maximum over the call:
                // sibling includes that were entered and left do not wrap the error)
                let entered = if call.api.reads_file() {
                    o.last_file_depth.saturating_sub(1)
                } else {
                    o.last_file_depth
                };
                let wrappers = err_line.matches("Include(").count();
                let innermost_ok = err_line.contains("ExceedRecursiveLimit") && err_line.starts_with("ERR ");
                if !innermost_ok {
                    fail(
                        "C09.cycle_ends_in_limit_error",
                        "wrong-error-shape",
                        "Err(Include^k(ExceedRecursiveLimit))".into(),
                        err_line.chars().take(200).collect(),
                        format!("{}: a cycle must end in ExceedRecursiveLimit", sc.family),
                    );
                } else if wrappers != entered {
                    fail(
                        "C09.include_wrapped_once_per_level",
                        "wrong-error-shape",
                        format!("{} Include wrappers (include levels entered)", entered),
                        format!("{} Include wrappers", wrappers),
                        format!("{}: ExceedRecursiveLimit must be wrapped once per include level", sc.family),
                    );
                } else {
                    rep.probe("cycle_err", 1);
                }
            } else {
                let is_ok = d.is_ok();
                let legal = ml <= LIMIT && il <= LIMIT;
                if is_ok {
                    // marker exactly once outside kept `define lines
                    let text: String = d.text.clone().unwrap_or_default();
                    let count: usize = text
                        .lines()
                        .filter(|l| !l.trim_start().starts_with("`define"))
                        .map(|l| l.matches(marker).count())
                        .sum();
                    if count != 1 {
                        fail(
                            "C09.chain_fully_expanded",
                            "model-mismatch",
                            "leaf marker exactly once in the expanded text".into(),
                            format!("{} occurrences", count),
                            format!("{}: chain of depth {} returned Ok but the leaf text is not there once", sc.family, n),
                        );
                    } else if legal {
                        rep.probe("chain_legal_ok", 1);
                        if n == LIMIT {
                            rep.probe("chain_depth64_ok", 1);
                        }
                    } else {
                        rep.probe("chain_beyond_limit_ok", 1);
                    }
                } else if legal {
                    fail(
                        "C09.legal_depth_works",
                        "wrong-error-shape",
                        "Ok".into(),
                        err_line.chars().take(200).collect(),
                        format!("{}: a chain with {} nested macro levels and {} nested include levels (limit {}) must succeed", sc.family, ml, il, LIMIT),
                    );
                } else if !err_line.contains("ExceedRecursiveLimit") {
                    fail(
                        "C09.deep_chain_error_shape",
                        "wrong-error-shape",
                        "Ok or Err(..ExceedRecursiveLimit)".into(),
                        err_line.chars().take(200).collect(),
                        format!("{}: a chain beyond the limit may only fail with ExceedRecursiveLimit", sc.family),
                    );
                } else {
                    rep.probe("chain_beyond_limit_err", 1);
                    if n == LIMIT + 1 {
                        rep.probe("chain_depth65_err", 1);
                    }
                }
            }
        }
        rep.probe(&format!("stack_{}mib", sc.knobs.stack_mib), 1);
        if call.api == Api::PreprocessStr {
            rep.probe("entry_preprocess_str", 1);
        }
        rep.probe("max_file_scope", o.max_file_depth as u64);
        rep.probe("max_macro_scope", o.max_macro_depth as u64);
        rep.nontrivial = shape == "cycle" || n >= 2;
        rep.distinct_key = crate::rng::fnv(format!("{}|{}|{:?}", sc.family, sc.knobs.stack_mib, call.api).as_bytes());
        rep.sample = Some(json!({
            "family": sc.family,
            "files": sc.vfs.iter().take(4).collect::<Vec<_>>(),
            "call": describe_call(call),
            "stack_mib": sc.knobs.stack_mib,
            "result": o.short(),
            "max_include_nesting": o.max_file_depth,
            "max_macro_nesting": o.max_macro_depth,
        }));
        rep
    }
}

