pub mod c07;
pub mod c08;
pub mod c09;
pub mod c10;
pub mod c17;
pub mod c19;
pub mod c20;
pub mod common;
