//! Helpers shared by the property checks.

use crate::exec::{CallOutcome, RunOutcome};
use crate::scenario::*;

pub fn mismatch(
    property: &str,
    clause: &str,
    thread: usize,
    call: usize,
    expected: &CallOutcome,
    observed: &CallOutcome,
    what: &str,
) -> Violation {
    let kind = if observed.panic.is_some() && expected.panic.is_none() {
        "panic"
    } else if observed.budget_exceeded && !expected.budget_exceeded {
        "budget-exhausted"
    } else {
        "digest-mismatch"
    };
    Violation {
        property: property.to_string(),
        clause: clause.to_string(),
        kind: kind.to_string(),
        thread,
        call,
        expected: expected.short(),
        observed: observed.short(),
        detail: format!("{}; first difference: {}", what, crate::digest::first_diff(&expected.full(), &observed.full())),
    }
}

pub fn describe_call(c: &Call) -> serde_json::Value {
    let clip = |s: &str| -> String {
        let t: String = s.chars().take(240).collect();
        if t.len() < s.len() {
            format!("{}…", t)
        } else {
            t
        }
    };
    serde_json::json!({
        "api": c.api.name(),
        "path": c.path,
        "text": c.text.as_ref().map(|t| clip(t)),
        "slot": c.slot,
        "defines": c.defines.iter().map(|d| d.name.clone()).collect::<Vec<_>>(),
        "include_paths": c.include_paths,
        "ignore_include": c.ignore_include,
        "allow_incomplete": c.allow_incomplete,
        "strip_comments": c.strip_comments,
        "memo_capacity": c.memo_capacity,
        "faults": c.faults,
    })
}

pub fn first_outcome(out: &RunOutcome) -> Option<&CallOutcome> {
    out.calls.first()
}
