//! Controller / worker processes, replay, minimisation, evidence.

use crate::prop::{self, Property, RunReport};
use crate::scenario::*;
use serde_json::json;
use std::collections::{BTreeMap, BTreeSet, HashMap};
use std::io::{BufRead, BufReader, Write};
use std::process::{Command, Stdio};
use std::time::{Duration, Instant};

pub const DEFAULT_SEED: u64 = 20261003;
pub const VERIF_DIR: &str = "/verif";

/// where replays and evidence go; /verif unless VERIF_OUT_DIR is set (background sweeps)
pub fn out_dir() -> String {
    std::env::var("VERIF_OUT_DIR").unwrap_or_else(|_| VERIF_DIR.to_string())
}

pub fn seed_from_env() -> u64 {
    std::env::var("VERIF_SEED")
        .ok()
        .and_then(|s| s.trim().parse::<u64>().ok())
        .unwrap_or(DEFAULT_SEED)
}

fn workers() -> usize {
    std::env::var("VERIF_WORKERS")
        .ok()
        .and_then(|s| s.parse::<usize>().ok())
        .unwrap_or(16)
        .max(1)
}

fn out_line(s: &str) {
    let so = std::io::stdout();
    let mut l = so.lock();
    let _ = writeln!(l, "{}", s);
    let _ = l.flush();
}

// ---------------------------------------------------------------------------------------------
// known findings

#[derive(Clone, Debug)]
pub struct Known {
    pub property: String,
    pub id: String,
    pub text: String,
}

pub fn load_known() -> Vec<Known> {
    let mut v = vec![];
    let p = format!("{}/known_findings.txt", VERIF_DIR);
    if let Ok(s) = std::fs::read_to_string(&p) {
        for line in s.lines() {
            let line = line.trim();
            if !line.starts_with("known:") {
                continue;
            }
            let mut property = String::new();
            let mut id = String::new();
            for tok in line.split_whitespace() {
                if let Some(x) = tok.strip_prefix("property=") {
                    property = x.to_string();
                }
                if let Some(x) = tok.strip_prefix("id=") {
                    id = x.to_string();
                }
            }
            let text = line.splitn(2, "--").nth(1).unwrap_or("").trim().to_string();
            if !property.is_empty() && !id.is_empty() {
                v.push(Known { property, id, text });
            }
        }
    }
    v
}

/// split a report's findings into (unlisted violations, listed known findings)
pub fn classify(rep: &RunReport, known: &[Known]) -> (Vec<Violation>, Vec<(String, Violation)>) {
    let mut viol = rep.violations.clone();
    let mut kn = vec![];
    for (slug, v) in &rep.matched {
        if known.iter().any(|k| k.property == v.property && k.id == *slug) {
            kn.push((slug.clone(), v.clone()));
        } else {
            let mut v = v.clone();
            v.detail = format!("[matches finding id '{}', which known_findings.txt does not list] {}", slug, v.detail);
            viol.push(v);
        }
    }
    (viol, kn)
}

// ---------------------------------------------------------------------------------------------
// worker

pub fn trace_hash(rep: &RunReport) -> u64 {
    let mut r = rep.clone();
    r.sample = None;
    r.replay_scenario = None;
    crate::rng::fnv(serde_json::to_string(&r).unwrap_or_default().as_bytes())
}

#[derive(Default, serde::Serialize, serde::Deserialize)]
struct WorkerStats {
    runs: u64,
    execs: u64,
    steps: u64,
    nontrivial_keys: Vec<u64>,
    probes: BTreeMap<String, u64>,
    fired: BTreeMap<String, u64>,
    samples: Vec<serde_json::Value>,
    harness_errors: Vec<String>,
}

pub fn cmd_worker(args: &[String]) -> i32 {
    // worker <prop> <tier> <seed> <start> <stride> <total> <deadline_s>
    let p = match prop::by_id(&args[0]) {
        Some(p) => p,
        None => return 2,
    };
    let tier = args[1].as_str();
    let seed: u64 = args[2].parse().unwrap_or(DEFAULT_SEED);
    let start: u64 = args[3].parse().unwrap_or(0);
    let stride: u64 = args[4].parse().unwrap_or(1);
    let total: u64 = args[5].parse().unwrap_or(0);
    let deadline = Duration::from_secs(args[6].parse().unwrap_or(60));
    let t0 = Instant::now();
    let known = load_known();
    let mut samples_sent = 0;
    let mut run = start;
    while run < total {
        if t0.elapsed() > deadline {
            out_line(&format!("T {}", run));
            break;
        }
        out_line(&format!("B {}", run));
        let sc = p.generate(seed, run, tier);
        let t_run = Instant::now();
        let rep = p.check(&sc);
        if std::env::var("VERIF_SLOW").is_ok() && t_run.elapsed().as_secs_f64() > 3.0 {
            eprintln!("slow run {}: {:.1}s execs={} steps={} probes={:?}", run, t_run.elapsed().as_secs_f64(), rep.execs, rep.steps, rep.probes);
        }
        let mini = serde_json::json!({
            "execs": rep.execs,
            "steps": rep.steps,
            "nontrivial": rep.nontrivial,
            "key": rep.distinct_key,
            "probes": rep.probes,
            "fired": rep.fired,
            "harness_error": rep.harness_error,
        });
        if samples_sent < 2 {
            if let Some(smp) = &rep.sample {
                out_line(&format!("M {}", serde_json::to_string(smp).unwrap_or_default()));
                samples_sent += 1;
            }
        }
        let (viol, kn) = classify(&rep, &known);
        for (slug, v) in &kn {
            out_line(&format!("K {} {} {}", run, slug, v.detail.replace('\n', " ")));
        }
        if let Some(v) = viol.first() {
            let path = format!("{}/replays/{}-{}-r{}.raw.json", out_dir(), p.id(), seed, run);
            let rp = Replay {
                scenario: rep.replay_scenario.clone().unwrap_or_else(|| sc.clone()),
                violation: v.clone(),
                minimised: false,
                note: String::new(),
            };
            let _ = std::fs::create_dir_all(format!("{}/replays", out_dir()));
            let _ = std::fs::write(&path, serde_json::to_string_pretty(&rp).unwrap_or_default());
            out_line(&format!("V {} {}", run, path));
        }
        out_line(&format!("E {} {:016x} {}", run, trace_hash(&rep), mini));
        run += stride;
    }
    out_line("S done");
    0
}

// ---------------------------------------------------------------------------------------------
// evaluating one scenario in a child process (crash containment)

pub enum Eval {
    Report(RunReport),
    Abort(String),
    Failed(String),
}

pub fn cmd_eval(path: &str) -> i32 {
    let s = match std::fs::read_to_string(path) {
        Ok(s) => s,
        Err(e) => {
            eprintln!("svsim eval: {}", e);
            return 2;
        }
    };
    let sc: Scenario = match serde_json::from_str::<Replay>(&s) {
        Ok(r) => r.scenario,
        Err(_) => match serde_json::from_str::<Scenario>(&s) {
            Ok(sc) => sc,
            Err(e) => {
                eprintln!("svsim eval: {}", e);
                return 2;
            }
        },
    };
    let p = match prop::by_id(&sc.property) {
        Some(p) => p,
        None => return 2,
    };
    let rep = p.check(&sc);
    out_line(&format!("R {}", serde_json::to_string(&rep).unwrap_or_default()));
    0
}

static EVAL_COUNTER: std::sync::atomic::AtomicU64 = std::sync::atomic::AtomicU64::new(0);

pub fn eval_child(sc: &Scenario, timeout: Duration) -> Eval {
    let n = EVAL_COUNTER.fetch_add(1, std::sync::atomic::Ordering::Relaxed);
    let dir = format!("{}/evaltmp", std::env::var("VERIF_OUT_DIR").unwrap_or_else(|_| format!("{}/sim/target", VERIF_DIR)));
    let _ = std::fs::create_dir_all(&dir);
    let path = format!("{}/e{}-{}.tmp", dir, std::process::id(), n);
    if std::fs::write(&path, serde_json::to_string(sc).unwrap_or_default()).is_err() {
        return Eval::Failed("cannot write scenario".into());
    }
    let exe = std::env::current_exe().unwrap();
    let child = Command::new(exe)
        .arg("eval")
        .arg(&path)
        .stdout(Stdio::piped())
        .stderr(Stdio::null())
        .spawn();
    let mut child = match child {
        Ok(c) => c,
        Err(e) => return Eval::Failed(format!("spawn: {}", e)),
    };
    let t0 = Instant::now();
    let mut out = String::new();
    // read stdout on a thread so a hung child can be killed
    let stdout = child.stdout.take().unwrap();
    let h = std::thread::spawn(move || {
        let mut s = String::new();
        let mut r = BufReader::new(stdout);
        let _ = std::io::Read::read_to_string(&mut r, &mut s);
        s
    });
    let status = loop {
        match child.try_wait() {
            Ok(Some(st)) => break Some(st),
            Ok(None) => {
                if t0.elapsed() > timeout {
                    let _ = child.kill();
                    let _ = child.wait();
                    break None;
                }
                std::thread::sleep(Duration::from_millis(2));
            }
            Err(_) => break None,
        }
    };
    if let Ok(s) = h.join() {
        out = s;
    }
    let _ = std::fs::remove_file(&path);
    match status {
        None => Eval::Failed("watchdog".into()),
        Some(st) => {
            if let Some(line) = out.lines().find(|l| l.starts_with("R ")) {
                match serde_json::from_str::<RunReport>(&line[2..]) {
                    Ok(r) => Eval::Report(r),
                    Err(e) => Eval::Failed(format!("bad report: {}", e)),
                }
            } else {
                use std::os::unix::process::ExitStatusExt;
                match st.signal() {
                    Some(sig) => Eval::Abort(format!("signal {}", sig)),
                    None => Eval::Failed(format!("exit {:?} without report", st.code())),
                }
            }
        }
    }
}

pub fn abort_violation(property: &str, what: &str) -> Violation {
    Violation {
        property: property.to_string(),
        clause: format!("{}.no_abort", property),
        kind: "abort".into(),
        thread: 0,
        call: 0,
        expected: "the call returns".into(),
        observed: format!("process died: {}", what),
        detail: "the worker process was killed while executing this scenario (stack overflow or abort)".into(),
    }
}

/// violations of a scenario, evaluated in a child; an abort becomes a violation of kind "abort"
pub fn violations_of(sc: &Scenario, known: &[Known]) -> Result<Vec<Violation>, String> {
    match eval_child(sc, Duration::from_secs(300)) {
        Eval::Report(r) => {
            if let Some(e) = r.harness_error {
                return Err(e);
            }
            Ok(classify(&r, known).0)
        }
        Eval::Abort(what) => Ok(vec![abort_violation(&sc.property, &what)]),
        Eval::Failed(e) => Err(e),
    }
}

// ---------------------------------------------------------------------------------------------
// minimisation

fn shrink_text(t: &str) -> Vec<String> {
    let mut out = vec![];
    let lines: Vec<&str> = t.split_inclusive('\n').collect();
    let n = lines.len();
    if n > 1 {
        let mut chunk = n / 2;
        while chunk >= 1 {
            let mut i = 0;
            while i < n {
                let mut v: Vec<&str> = vec![];
                v.extend_from_slice(&lines[..i]);
                if i + chunk < n {
                    v.extend_from_slice(&lines[i + chunk..]);
                }
                out.push(v.concat());
                i += chunk;
            }
            if chunk == 1 {
                break;
            }
            chunk /= 2;
        }
    } else if t.len() > 1 {
        // single line: drop halves / words
        let words: Vec<&str> = t.split_inclusive(' ').collect();
        if words.len() > 1 {
            for i in 0..words.len() {
                let mut v = words.clone();
                v.remove(i);
                out.push(v.concat());
            }
        }
    }
    out
}

pub fn generic_shrinks(sc: &Scenario) -> Vec<Scenario> {
    let mut out = vec![];
    // drop a thread
    if sc.threads.len() > 1 {
        for t in 0..sc.threads.len() {
            let mut c = sc.clone();
            c.threads.remove(t);
            if c.threads.len() == 1 {
                c.schedule = Schedule::Solo;
            }
            out.push(c);
        }
    }
    // drop an op
    for t in 0..sc.threads.len() {
        if sc.threads[t].len() > 1 {
            for i in 0..sc.threads[t].len() {
                let mut c = sc.clone();
                c.threads[t].remove(i);
                out.push(c);
            }
        }
    }
    // fewer context switches
    if let Schedule::Explicit { switches } = &sc.schedule {
        if !switches.is_empty() {
            let mut c = sc.clone();
            c.schedule = Schedule::Explicit { switches: vec![] };
            out.push(c);
            let n = switches.len();
            let mut chunk = n / 2;
            while chunk >= 1 {
                let mut i = 0;
                while i < n {
                    let mut s = switches.clone();
                    let end = (i + chunk).min(n);
                    s.drain(i..end);
                    let mut c = sc.clone();
                    c.schedule = Schedule::Explicit { switches: s };
                    out.push(c);
                    i += chunk;
                }
                if chunk == 1 {
                    break;
                }
                chunk /= 2;
            }
        }
    }
    // drop faults, defines, include paths, knobs of calls
    for t in 0..sc.threads.len() {
        for i in 0..sc.threads[t].len() {
            if let Op::Call(call) = &sc.threads[t][i] {
                for f in 0..call.faults.len() {
                    let mut c = sc.clone();
                    if let Op::Call(cc) = &mut c.threads[t][i] {
                        cc.faults.remove(f);
                    }
                    out.push(c);
                }
                for d in 0..call.defines.len() {
                    let mut c = sc.clone();
                    if let Op::Call(cc) = &mut c.threads[t][i] {
                        cc.defines.remove(d);
                    }
                    out.push(c);
                }
                if call.slot.is_some() {
                    let mut c = sc.clone();
                    if let Op::Call(cc) = &mut c.threads[t][i] {
                        cc.slot = None;
                    }
                    out.push(c);
                }
                if let Some(text) = &call.text {
                    for s in shrink_text(text) {
                        let mut c = sc.clone();
                        if let Op::Call(cc) = &mut c.threads[t][i] {
                            cc.text = Some(s);
                        }
                        out.push(c);
                    }
                }
            }
        }
    }
    // drop files, shrink file bodies
    for i in 0..sc.vfs.len() {
        let mut c = sc.clone();
        c.vfs.remove(i);
        out.push(c);
    }
    for i in 0..sc.vfs.len() {
        if let VNode::File {
            bytes: Bytes::Text(t), ..
        } = &sc.vfs[i]
        {
            for s in shrink_text(t) {
                let mut c = sc.clone();
                if let VNode::File { bytes, .. } = &mut c.vfs[i] {
                    *bytes = Bytes::Text(s);
                }
                out.push(c);
            }
        }
    }
    out
}

pub fn minimise(
    p: &dyn Property,
    sc: &Scenario,
    class: &(String, String, String),
    known: &[Known],
    budget: Duration,
) -> (Scenario, Violation, u64) {
    let t0 = Instant::now();
    let mut cur = sc.clone();
    let mut cur_v: Option<Violation> = None;
    let mut evals = 0u64;
    'outer: loop {
        let mut cands = p.shrink(&cur);
        cands.extend(generic_shrinks(&cur));
        let mut seen = BTreeSet::new();
        cands.retain(|c| c != &cur && p.valid(c) && seen.insert(c.hash()));
        for chunk in cands.chunks(16) {
            if t0.elapsed() > budget {
                break 'outer;
            }
            let results: Vec<Option<Violation>> = std::thread::scope(|s| {
                let hs: Vec<_> = chunk
                    .iter()
                    .map(|c| {
                        s.spawn(move || match violations_of(c, known) {
                            Ok(vs) => vs.into_iter().find(|v| &v.class() == class),
                            Err(_) => None,
                        })
                    })
                    .collect();
                hs.into_iter().map(|h| h.join().unwrap_or(None)).collect()
            });
            evals += chunk.len() as u64;
            if let Some((i, v)) = results.into_iter().enumerate().find_map(|(i, v)| v.map(|v| (i, v))) {
                cur = chunk[i].clone();
                cur_v = Some(v);
                continue 'outer;
            }
        }
        break;
    }
    let v = match cur_v {
        Some(v) => v,
        None => match violations_of(&cur, known) {
            Ok(vs) => vs
                .into_iter()
                .find(|v| &v.class() == class)
                .unwrap_or_else(|| abort_violation(&sc.property, "not reproduced")),
            Err(_) => abort_violation(&sc.property, "not reproduced"),
        },
    };
    (cur, v, evals)
}

// ---------------------------------------------------------------------------------------------
// replay

pub fn cmd_replay(path: &str) -> i32 {
    let s = match std::fs::read_to_string(path) {
        Ok(s) => s,
        Err(e) => {
            eprintln!("svsim replay: cannot read {}: {}", path, e);
            return 2;
        }
    };
    let rp: Replay = match serde_json::from_str(&s) {
        Ok(r) => r,
        Err(e) => {
            eprintln!("svsim replay: {}", e);
            return 2;
        }
    };
    let known = load_known();
    let tries = if matches!(rp.scenario.schedule, Schedule::Free) { 40 } else { 1 };
    let mut res = violations_of(&rp.scenario, &known);
    for _ in 1..tries {
        if matches!(&res, Ok(v) if !v.is_empty()) {
            break;
        }
        res = violations_of(&rp.scenario, &known);
    }
    match res {
        Err(e) => {
            eprintln!("svsim replay: harness error: {}", e);
            2
        }
        Ok(vs) => {
            let class = rp.violation.class();
            match vs.iter().find(|v| v.class() == class).or(vs.first()) {
                Some(v) => {
                    println!(
                        "replay: {} {} [{}] expected {} observed {} -- {}",
                        v.property, v.clause, v.kind, v.expected, v.observed, v.detail
                    );
                    println!("VIOLATION property={} replay={}", v.property, path);
                    1
                }
                None => {
                    println!("replay: no violation reproduced from {}", path);
                    0
                }
            }
        }
    }
}

// ---------------------------------------------------------------------------------------------
// controller

struct WorkerResult {
    finished: bool,
    stats: WorkerStats,
    hashes: HashMap<u64, u64>,
    violations: Vec<(u64, String)>,
    known: Vec<(u64, String, String)>,
    aborted_run: Option<u64>,
    timed_out_at: Option<u64>,
    next_run: u64,
    exit_desc: String,
}

fn run_worker(p: &dyn Property, tier: &str, seed: u64, start: u64, stride: u64, total: u64, deadline_s: u64) -> WorkerResult {
    let exe = std::env::current_exe().unwrap();
    let mut res = WorkerResult {
        finished: false,
        stats: WorkerStats::default(),
        hashes: HashMap::new(),
        violations: vec![],
        known: vec![],
        aborted_run: None,
        timed_out_at: None,
        next_run: start,
        exit_desc: String::new(),
    };
    let child = Command::new(exe)
        .arg("worker")
        .arg(p.id())
        .arg(tier)
        .arg(seed.to_string())
        .arg(start.to_string())
        .arg(stride.to_string())
        .arg(total.to_string())
        .arg(deadline_s.to_string())
        .stdout(Stdio::piped())
        .stderr(Stdio::inherit())
        .spawn();
    let mut child = match child {
        Ok(c) => c,
        Err(e) => {
            res.exit_desc = format!("spawn failed: {}", e);
            return res;
        }
    };
    let stdout = child.stdout.take().unwrap();
    let mut open: Option<u64> = None;
    for line in BufReader::new(stdout).lines() {
        let line = match line {
            Ok(l) => l,
            Err(_) => break,
        };
        let mut it = line.splitn(3, ' ');
        let tag = it.next().unwrap_or("");
        match tag {
            "B" => open = it.next().and_then(|x| x.parse().ok()),
            "E" => {
                let run: u64 = it.next().and_then(|x| x.parse().ok()).unwrap_or(0);
                let rest = it.next().unwrap_or("");
                let mut r2 = rest.splitn(2, ' ');
                let h = u64::from_str_radix(r2.next().unwrap_or("0"), 16).unwrap_or(0);
                res.hashes.insert(run, h);
                if let Ok(v) = serde_json::from_str::<serde_json::Value>(r2.next().unwrap_or("{}")) {
                    let st = &mut res.stats;
                    st.runs += 1;
                    st.execs += v["execs"].as_u64().unwrap_or(0);
                    st.steps += v["steps"].as_u64().unwrap_or(0);
                    if v["nontrivial"].as_bool().unwrap_or(false) {
                        st.nontrivial_keys.push(v["key"].as_u64().unwrap_or(0));
                    }
                    if let Some(m) = v["probes"].as_object() {
                        for (k, x) in m {
                            prop::merge_probe(&mut st.probes, k, x.as_u64().unwrap_or(0));
                        }
                    }
                    if let Some(m) = v["fired"].as_object() {
                        for (k, x) in m {
                            *st.fired.entry(k.clone()).or_insert(0) += x.as_u64().unwrap_or(0);
                        }
                    }
                    if let Some(e) = v["harness_error"].as_str() {
                        st.harness_errors.push(format!("run {}: {}", run, e));
                    }
                }
                open = None;
                res.next_run = run + stride;
            }
            "M" => {
                if let Ok(v) = serde_json::from_str::<serde_json::Value>(&line[2..]) {
                    res.stats.samples.push(v);
                }
            }
            "V" => {
                let run: u64 = it.next().and_then(|x| x.parse().ok()).unwrap_or(0);
                res.violations.push((run, it.next().unwrap_or("").to_string()));
            }
            "K" => {
                let run: u64 = it.next().and_then(|x| x.parse().ok()).unwrap_or(0);
                let rest = it.next().unwrap_or("");
                let mut r2 = rest.splitn(2, ' ');
                res.known.push((
                    run,
                    r2.next().unwrap_or("").to_string(),
                    r2.next().unwrap_or("").to_string(),
                ));
            }
            "T" => res.timed_out_at = it.next().and_then(|x| x.parse().ok()),
            "S" => res.finished = true,
            _ => {}
        }
    }
    let st = child.wait();
    if !res.finished {
        res.aborted_run = open;
        res.exit_desc = format!("{:?}", st);
        if let Some(r) = open {
            res.next_run = r + stride;
        }
    }
    res
}

pub fn cmd_check(prop_id: &str, tier: &str) -> i32 {
    let t0 = Instant::now();
    let p = match prop::by_id(prop_id) {
        Some(p) => p,
        None => {
            eprintln!("svsim: unknown property {}", prop_id);
            return 2;
        }
    };
    let p: &dyn Property = p.as_ref();
    let seed = seed_from_env();
    let known = load_known();
    let total = std::env::var("VERIF_RUNS")
        .ok()
        .and_then(|s| s.parse().ok())
        .unwrap_or_else(|| p.runs(tier));
    let cap = std::env::var("VERIF_BUDGET_S")
        .ok()
        .and_then(|s| s.parse().ok())
        .unwrap_or_else(|| p.time_cap_s(tier));
    let w = workers().min(total.max(1) as usize);
    println!(
        "svsim check property={} tier={} VERIF_SEED={} runs={} workers={} time_cap_s={}",
        p.id(),
        tier,
        seed,
        total,
        w,
        cap
    );

    // ---- batch
    let mut agg = WorkerStats::default();
    let mut hashes: HashMap<u64, u64> = HashMap::new();
    let mut violations: Vec<(u64, String)> = vec![];
    let mut known_seen: BTreeMap<String, (u64, String)> = BTreeMap::new();
    let mut known_count: BTreeMap<String, u64> = BTreeMap::new();
    let mut harness_errors: Vec<String> = vec![];
    let mut timed_out = false;
    let results: Vec<Vec<WorkerResult>> = std::thread::scope(|s| {
        let hs: Vec<_> = (0..w)
            .map(|i| {
                s.spawn(move || {
                    let mut out = vec![];
                    let mut start = i as u64;
                    let mut restarts = 0;
                    loop {
                        let left = cap.saturating_sub(t0.elapsed().as_secs());
                        let r = run_worker(p, tier, seed, start, w as u64, total, left);
                        let done = r.finished;
                        let next = r.next_run;
                        out.push(r);
                        if done || next >= total || restarts > 64 {
                            break;
                        }
                        restarts += 1;
                        start = next;
                    }
                    out
                })
            })
            .collect();
        hs.into_iter().map(|h| h.join().unwrap_or_default()).collect()
    });
    for wr in results.into_iter().flatten() {
        {
            let st = wr.stats;
            agg.runs += st.runs;
            agg.execs += st.execs;
            agg.steps += st.steps;
            agg.nontrivial_keys.extend(st.nontrivial_keys);
            for (k, v) in st.probes {
                prop::merge_probe(&mut agg.probes, &k, v);
            }
            for (k, v) in st.fired {
                *agg.fired.entry(k).or_insert(0) += v;
            }
            for s in st.samples {
                if agg.samples.len() < 4 {
                    agg.samples.push(s);
                }
            }
            harness_errors.extend(st.harness_errors);
        }
        if wr.finished {
        } else if let Some(run) = wr.aborted_run {
            // the worker died inside run `run`
            if p.may_abort() {
                let sc = p.generate(seed, run, tier);
                let path = format!("{}/replays/{}-{}-r{}.raw.json", out_dir(), p.id(), seed, run);
                let rp = Replay {
                    scenario: sc,
                    violation: abort_violation(p.id(), &wr.exit_desc),
                    minimised: false,
                    note: String::new(),
                };
                let _ = std::fs::create_dir_all(format!("{}/replays", out_dir()));
                let _ = std::fs::write(&path, serde_json::to_string_pretty(&rp).unwrap_or_default());
                violations.push((run, path));
                agg.runs += 1;
            } else {
                harness_errors.push(format!("worker died in run {} ({})", run, wr.exit_desc));
            }
        } else if !wr.exit_desc.is_empty() {
            harness_errors.push(format!("worker failed: {}", wr.exit_desc));
        }
        hashes.extend(wr.hashes);
        violations.extend(wr.violations);
        for (run, slug, desc) in wr.known {
            *known_count.entry(slug.clone()).or_insert(0) += 1;
            let e = known_seen.entry(slug).or_insert((run, desc.clone()));
            if run < e.0 {
                *e = (run, desc);
            }
        }
        if wr.timed_out_at.is_some() {
            timed_out = true;
        }
    }
    violations.sort();

    // ---- determinism self-check: re-execute a few runs in fresh processes, compare trace hashes
    let mut det_checked = 0u64;
    let mut det_mismatch: Vec<u64> = vec![];
    if harness_errors.is_empty() {
        let mut runs: Vec<u64> = hashes.keys().cloned().collect();
        runs.sort();
        // VERIF_SELFCHECK_RUNS=<n> re-executes n runs of the batch (bin/determinism uses it for the large-sample proof)
        let k = std::env::var("VERIF_SELFCHECK_RUNS").ok().and_then(|v| v.parse::<usize>().ok()).unwrap_or(if tier == "thorough" { 64 } else { 16 }).max(1);
        let picks: Vec<u64> = if runs.len() <= k {
            runs.clone()
        } else {
            (0..k).map(|i| runs[i * runs.len() / k]).collect()
        };
        let mut results: Vec<(u64, Option<u64>)> = vec![];
        for chunk in picks.chunks(16) {
        let part: Vec<(u64, Option<u64>)> = std::thread::scope(|s| {
            let hs: Vec<_> = chunk
                .iter()
                .map(|run| {
                    let run = *run;
                    s.spawn(move || {
                        let sc = p.generate(seed, run, tier);
                        match eval_child(&sc, Duration::from_secs(300)) {
                            Eval::Report(r) => (run, Some(trace_hash(&r))),
                            _ => (run, None),
                        }
                    })
                })
                .collect();
            hs.into_iter().map(|h| h.join().unwrap()).collect()
        });
        results.extend(part);
        }
        for (run, h) in results {
            det_checked += 1;
            if h != hashes.get(&run).cloned() {
                det_mismatch.push(run);
            }
        }
    }

    let batch_trace_hash = {
        let mut hs: Vec<(u64, u64)> = hashes.iter().map(|(k, v)| (*k, *v)).collect();
        hs.sort();
        let mut bytes = vec![];
        for (k, v) in hs {
            bytes.extend_from_slice(&k.to_le_bytes());
            bytes.extend_from_slice(&v.to_le_bytes());
        }
        format!("{:016x}", crate::rng::fnv(&bytes))
    };
    // ---- violations: minimise the first, report
    let mut exit = 0;
    let mut reported: Option<(Violation, String)> = None;
    if let Some((run, raw_path)) = violations.first() {
        let raw: Option<Replay> = std::fs::read_to_string(raw_path)
            .ok()
            .and_then(|s| serde_json::from_str(&s).ok());
        if let Some(raw) = raw {
            let class = raw.violation.class();
            let budget = Duration::from_secs(if tier == "thorough" { 300 } else { 90 });
            let (min_sc, min_v, evals) = minimise(p, &raw.scenario, &class, &known, budget);
            // re-execute the minimised scenario in a fresh process
            let confirmed = violations_of(&min_sc, &known)
                .map(|vs| vs.iter().any(|v| v.class() == class))
                .unwrap_or(false);
            let final_path = format!("{}/replays/{}-{}-r{}.json", out_dir(), p.id(), seed, run);
            let (sc_out, v_out, minimised) = if confirmed {
                (min_sc, min_v, true)
            } else {
                (raw.scenario.clone(), raw.violation.clone(), false)
            };
            let rp = Replay {
                scenario: sc_out,
                violation: v_out.clone(),
                minimised,
                note: format!(
                    "found as run {} of `svsim check {} {}` with VERIF_SEED={}; {} shrink evaluations; replay with ./bin/check replay <this file>",
                    run,
                    p.id(),
                    tier,
                    seed,
                    evals
                ),
            };
            let _ = std::fs::write(&final_path, serde_json::to_string_pretty(&rp).unwrap_or_default());
            println!(
                "violation: {} [{}] thread {} call {}: expected {} observed {} -- {}",
                v_out.clause, v_out.kind, v_out.thread, v_out.call, v_out.expected, v_out.observed, v_out.detail
            );
            println!("({} violating runs in this batch; first is run {})", violations.len(), run);
            println!("VIOLATION property={} replay={}", p.id(), final_path);
            reported = Some((v_out, final_path));
            exit = 1;
        } else {
            harness_errors.push(format!("cannot read raw replay {}", raw_path));
        }
    }
    for (slug, (run, desc)) in &known_seen {
        let text = known
            .iter()
            .find(|k| k.property == p.id() && &k.id == slug)
            .map(|k| k.text.clone())
            .unwrap_or_default();
        println!(
            "KNOWN-FINDING: property={} id={} {} (re-observed {} times, first in run {}: {})",
            p.id(),
            slug,
            text,
            known_count.get(slug).cloned().unwrap_or(0),
            run,
            desc
        );
    }

    // ---- evidence
    let wall = t0.elapsed().as_secs_f64();
    let distinct: BTreeSet<u64> = agg.nontrivial_keys.iter().cloned().collect();
    let mut weaknesses: Vec<String> = vec![];
    for probe in p.required_probes() {
        if agg.probes.get(probe).cloned().unwrap_or(0) == 0 {
            weaknesses.push(format!("reach probe '{}' stayed at zero in this batch", probe));
        }
    }
    if timed_out {
        weaknesses.push(format!("time cap {} s reached: {} of {} planned runs executed", cap, agg.runs, total));
    }
    if !det_mismatch.is_empty() {
        weaknesses.push(format!("determinism self-check failed for runs {:?}", det_mismatch));
    }
    let exhaustive = p.exhaustive(tier) && !timed_out && agg.runs == total;
    let ev = json!({
        "property_id": p.id(),
        "tier": tier,
        "seed": seed,
        "level": p.level(),
        "wall_s": wall,
        "violations": violations.len(),
        "coverage": {
            "evaluations": agg.runs,
            "distinct_nontrivial": distinct.len(),
            "rule": p.rule(),
            "samples": agg.samples,
            "exhaustive": exhaustive,
            "simulated_executions": agg.execs,
            "runs_per_hour": if wall > 0.0 { (agg.runs as f64 / wall * 3600.0) as u64 } else { 0 },
            "seeds_per_hour": if wall > 0.0 { (agg.runs as f64 / wall * 3600.0) as u64 } else { 0 },
            "simulated_time": format!("{} steps (the library reads no clock; a step is one grammar terminal, parser-state mutation or file-system operation)", agg.steps),
            "steps_total": agg.steps,
            "fault_kinds_fired": agg.fired,
            "reach_probes": agg.probes,
            "determinism_selfcheck": {"runs_re_executed_in_fresh_process": det_checked, "mismatches": det_mismatch.len(), "batch_trace_hash": batch_trace_hash},
            "known_findings_reobserved": known_count,
            "first_violation": reported.as_ref().map(|(v, path)| json!({"clause": v.clause, "kind": v.kind, "replay": path})),
            "components": {
                "real": ["sv-parser", "sv-parser-pp", "sv-parser-parser", "sv-parser-syntaxtree", "sv-parser-error", "sv-parser-macros", "nom", "nom-packrat", "nom-recursive", "nom_locate", "str-concat", "std::thread", "std thread_local!"],
                "stub": ["file system (in-memory Vfs with fault plan)", "choice of which caller thread runs (baton scheduler)", "hasher of caller-supplied define tables", "memo capacity knob (verification build wraps nom_packrat::PackratStorage)"]
            },
            "weaknesses": weaknesses,
        },
        "assumptions": p.assumptions(),
    });
    let _ = std::fs::create_dir_all(format!("{}/evidence", out_dir()));
    let ev_path = format!("{}/evidence/{}.json", out_dir(), p.id());
    if std::fs::write(&ev_path, serde_json::to_string_pretty(&ev).unwrap_or_default()).is_err() {
        eprintln!("svsim: cannot write {}", ev_path);
        return 2;
    }
    println!(
        "summary: runs={} executions={} steps={} distinct_nontrivial={} violations={} known={} wall={:.1}s evidence={}",
        agg.runs,
        agg.execs,
        agg.steps,
        distinct.len(),
        violations.len(),
        known_seen.len(),
        wall,
        ev_path
    );
    if exit == 1 {
        return 1;
    }
    if !harness_errors.is_empty() {
        for e in harness_errors.iter().take(5) {
            eprintln!("svsim: harness error: {}", e);
        }
        return 2;
    }
    if !det_mismatch.is_empty() {
        eprintln!("svsim: determinism self-check failed (runs {:?}): harness defect, no verdict", det_mismatch);
        return 2;
    }
    if agg.runs == 0 {
        eprintln!("svsim: no run executed");
        return 2;
    }
    0
}

impl Default for WorkerResult {
    fn default() -> Self {
        WorkerResult {
            finished: false,
            stats: WorkerStats::default(),
            hashes: HashMap::new(),
            violations: vec![],
            known: vec![],
            aborted_run: None,
            timed_out_at: None,
            next_run: 0,
            exit_desc: String::new(),
        }
    }
}
