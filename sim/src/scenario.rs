//! The explicit, serialisable description of one simulated run. Execution is a
//! deterministic function of this value; a replay file is this value plus the
//! violation that was observed.

use serde::{Deserialize, Serialize};

#[derive(Clone, Copy, Debug, PartialEq, Eq, Hash, Serialize, Deserialize)]
#[serde(rename_all = "snake_case")]
pub enum Api {
    Preprocess,
    PreprocessStr,
    ParseSv,
    ParseSvStr,
    ParseLib,
    ParseLibStr,
    /// preprocess(path) then parse_sv_pp
    ParseSvPp,
    /// preprocess_str(text) then parse_sv_pp
    ParseSvPpStr,
    ParseLibPp,
    ParseLibPpStr,
    RawSv,
    RawSvIncomplete,
    RawLib,
    RawLibIncomplete,
    RawPp,
}

impl Api {
    pub fn reads_file(self) -> bool {
        matches!(
            self,
            Api::Preprocess | Api::ParseSv | Api::ParseLib | Api::ParseSvPp | Api::ParseLibPp
        )
    }
    pub fn is_raw(self) -> bool {
        matches!(
            self,
            Api::RawSv | Api::RawSvIncomplete | Api::RawLib | Api::RawLibIncomplete | Api::RawPp
        )
    }
    pub fn name(self) -> &'static str {
        match self {
            Api::Preprocess => "preprocess",
            Api::PreprocessStr => "preprocess_str",
            Api::ParseSv => "parse_sv",
            Api::ParseSvStr => "parse_sv_str",
            Api::ParseLib => "parse_lib",
            Api::ParseLibStr => "parse_lib_str",
            Api::ParseSvPp => "preprocess+parse_sv_pp",
            Api::ParseSvPpStr => "preprocess_str+parse_sv_pp",
            Api::ParseLibPp => "preprocess+parse_lib_pp",
            Api::ParseLibPpStr => "preprocess_str+parse_lib_pp",
            Api::RawSv => "sv_parser",
            Api::RawSvIncomplete => "sv_parser_incomplete",
            Api::RawLib => "lib_parser",
            Api::RawLibIncomplete => "lib_parser_incomplete",
            Api::RawPp => "pp_parser",
        }
    }
}

#[derive(Clone, Debug, PartialEq, Eq, Hash, Serialize, Deserialize)]
pub struct DefineSpec {
    pub name: String,
    /// false: the name maps to None (defined, no value object)
    pub has_value: bool,
    pub args: Vec<(String, Option<String>)>,
    pub text: Option<String>,
}

#[derive(Clone, Debug, PartialEq, Eq, Hash, Serialize, Deserialize)]
#[serde(rename_all = "snake_case", tag = "kind")]
pub enum FaultKind {
    // exists()
    ToctouVanish,
    ToctouAppear,
    // open()
    Enoent,
    Eacces,
    Emfile,
    IsDir,
    // read stream
    ShortRead { chunks: Vec<usize> },
    Eintr { every: usize },
    EioAt { k: usize },
    TruncateAt { k: usize },
    Corrupt { k: usize, byte: u8 },
    InvalidUtf8Tail,
}

impl FaultKind {
    pub fn name(&self) -> &'static str {
        match self {
            FaultKind::ToctouVanish => "toctou_vanish",
            FaultKind::ToctouAppear => "toctou_appear",
            FaultKind::Enoent => "enoent",
            FaultKind::Eacces => "eacces",
            FaultKind::Emfile => "emfile",
            FaultKind::IsDir => "is_dir",
            FaultKind::ShortRead { .. } => "short_read",
            FaultKind::Eintr { .. } => "eintr",
            FaultKind::EioAt { .. } => "eio_at",
            FaultKind::TruncateAt { .. } => "truncate_at",
            FaultKind::Corrupt { .. } => "corrupt",
            FaultKind::InvalidUtf8Tail => "invalid_utf8_tail",
        }
    }
    pub fn op(&self) -> &'static str {
        match self {
            FaultKind::ToctouVanish | FaultKind::ToctouAppear => "exists",
            FaultKind::Enoent | FaultKind::Eacces | FaultKind::Emfile | FaultKind::IsDir => "open",
            _ => "read",
        }
    }
    /// a fault the library must not let the caller notice
    pub fn transparent(&self) -> bool {
        matches!(self, FaultKind::ShortRead { .. } | FaultKind::Eintr { .. })
    }
}

#[derive(Clone, Debug, PartialEq, Eq, Hash, Serialize, Deserialize)]
pub struct Fault {
    /// normalised absolute path in the simulated file system
    pub path: String,
    /// n-th operation of this kind on this path within the call; None = every one
    pub nth: Option<u32>,
    #[serde(flatten)]
    pub kind: FaultKind,
}

#[derive(Clone, Debug, PartialEq, Eq, Hash, Serialize, Deserialize)]
pub struct Call {
    pub api: Api,
    pub path: String,
    /// source text for the *_str and raw entry points
    pub text: Option<String>,
    /// fixed harness buffer the text is placed in (address reuse is a decided event)
    pub slot: Option<u8>,
    /// byte offset inside the slot (adjacent slices of one buffer are a decided event too)
    #[serde(default)]
    pub slot_off: usize,
    pub defines: Vec<DefineSpec>,
    pub hash_seed: u64,
    pub include_paths: Vec<String>,
    pub ignore_include: bool,
    pub allow_incomplete: bool,
    pub strip_comments: bool,
    /// None = shipped (1024); Some(0) = unbounded; Some(n) = n entries
    pub memo_capacity: Option<usize>,
    pub flag_aware: bool,
    /// diagnostic knob (C17 discriminator): the keyword set in force is frozen to the default
    #[serde(default)]
    pub freeze_version: bool,
    /// diagnostic knob (C17 discriminator): shipped memo key, but hits on entries stored under other
    /// effective left-recursion flags are recomputed
    #[serde(default)]
    pub suppress_flag_stale: bool,
    pub faults: Vec<Fault>,
}

impl Call {
    pub fn new(api: Api, path: &str) -> Call {
        Call {
            api,
            path: path.to_string(),
            text: None,
            slot: None,
            slot_off: 0,
            defines: vec![],
            hash_seed: 0,
            include_paths: vec![],
            ignore_include: false,
            allow_incomplete: false,
            strip_comments: false,
            memo_capacity: None,
            flag_aware: false,
            freeze_version: false,
            suppress_flag_stale: false,
            faults: vec![],
        }
    }
}

#[derive(Clone, Debug, PartialEq, Eq, Hash, Serialize, Deserialize)]
#[serde(rename_all = "snake_case", tag = "op")]
pub enum Op {
    Call(Call),
    /// the content of a path changes between two calls
    Rewrite { path: String, bytes: Bytes },
    Remove { path: String },
}

/// file content: text when valid UTF-8, else hex
#[derive(Clone, Debug, PartialEq, Eq, Hash, Serialize, Deserialize)]
#[serde(rename_all = "snake_case")]
pub enum Bytes {
    Text(String),
    Hex(String),
}

impl Bytes {
    pub fn from_vec(v: &[u8]) -> Bytes {
        match std::str::from_utf8(v) {
            Ok(s) => Bytes::Text(s.to_string()),
            Err(_) => Bytes::Hex(v.iter().map(|b| format!("{:02x}", b)).collect()),
        }
    }
    pub fn to_vec(&self) -> Vec<u8> {
        match self {
            Bytes::Text(s) => s.as_bytes().to_vec(),
            Bytes::Hex(h) => (0..h.len() / 2)
                .map(|i| u8::from_str_radix(&h[2 * i..2 * i + 2], 16).unwrap_or(0))
                .collect(),
        }
    }
    pub fn len(&self) -> usize {
        match self {
            Bytes::Text(s) => s.len(),
            Bytes::Hex(h) => h.len() / 2,
        }
    }
}

#[derive(Clone, Debug, PartialEq, Eq, Hash, Serialize, Deserialize)]
#[serde(rename_all = "snake_case", tag = "kind")]
pub enum VNode {
    File { path: String, bytes: Bytes },
    Dir { path: String },
    Symlink { path: String, target: String },
}

impl VNode {
    pub fn path(&self) -> &str {
        match self {
            VNode::File { path, .. } | VNode::Dir { path } | VNode::Symlink { path, .. } => path,
        }
    }
    pub fn file(path: &str, text: &str) -> VNode {
        VNode::File {
            path: path.to_string(),
            bytes: Bytes::Text(text.to_string()),
        }
    }
}

#[derive(Clone, Debug, PartialEq, Eq, Hash, Serialize, Deserialize)]
#[serde(rename_all = "snake_case", tag = "policy")]
pub enum Schedule {
    /// no second thread: nothing to schedule
    Solo,
    Random { num: u64, den: u64, seed: u64 },
    Pct { depth: u32, seed: u64, est_steps: u64 },
    Biased { num: u64, den: u64, seed: u64 },
    /// (global step, thread to run from there on)
    Explicit { switches: Vec<(u64, usize)> },
    /// supplement: the threads run truly concurrently behind a start barrier; the simulator does not
    /// decide the interleaving, so a failure found this way replays only statistically
    Free,
}

#[derive(Clone, Debug, PartialEq, Eq, Hash, Serialize, Deserialize)]
pub struct Knobs {
    pub stack_mib: usize,
    pub step_budget: u64,
    pub open_budget: u64,
}

impl Default for Knobs {
    fn default() -> Self {
        Knobs {
            stack_mib: 256,
            step_budget: 4_000_000,
            open_budget: 4096,
        }
    }
}

#[derive(Clone, Debug, PartialEq, Eq, Hash, Serialize, Deserialize)]
pub struct Scenario {
    pub format: u32,
    pub property: String,
    pub seed: u64,
    pub run: u64,
    pub tier: String,
    /// free text: which generator family produced it
    pub family: String,
    pub knobs: Knobs,
    pub cwd: String,
    pub vfs: Vec<VNode>,
    pub threads: Vec<Vec<Op>>,
    pub schedule: Schedule,
    /// property-specific expectations computed by the generator (e.g. C09 depth)
    #[serde(default)]
    pub expect: serde_json::Value,
}

impl Scenario {
    pub fn new(property: &str, seed: u64, run: u64, tier: &str) -> Scenario {
        Scenario {
            format: 1,
            property: property.to_string(),
            seed,
            run,
            tier: tier.to_string(),
            family: String::new(),
            knobs: Knobs::default(),
            cwd: "/w".to_string(),
            vfs: vec![],
            threads: vec![],
            schedule: Schedule::Solo,
            expect: serde_json::Value::Null,
        }
    }

    pub fn calls(&self) -> impl Iterator<Item = &Call> {
        self.threads.iter().flat_map(|t| {
            t.iter().filter_map(|o| match o {
                Op::Call(c) => Some(c),
                _ => None,
            })
        })
    }

    pub fn hash(&self) -> u64 {
        let s = serde_json::to_string(self).unwrap_or_default();
        crate::rng::fnv(s.as_bytes())
    }
}

#[derive(Clone, Debug, PartialEq, Eq, Serialize, Deserialize)]
pub struct Violation {
    pub property: String,
    /// oracle clause, e.g. "C07.digest_vs_fresh"
    pub clause: String,
    /// digest-mismatch | panic | abort | budget-exhausted | wrong-error-shape | io-monitor | model-mismatch
    pub kind: String,
    pub thread: usize,
    pub call: usize,
    pub expected: String,
    pub observed: String,
    pub detail: String,
}

impl Violation {
    /// what must stay the same while minimising
    pub fn class(&self) -> (String, String, String) {
        // for result mismatches the outcome kinds (Ok / Err:<variant> / PANIC) are part of the class,
        // so that shrinking cannot drift to a different disagreement
        let head = |s: &str| s.split(|c| c == '#' || c == ' ').next().unwrap_or("").to_string();
        let kind = if self.kind == "digest-mismatch" {
            format!("{}:{}/{}", self.kind, head(&self.expected), head(&self.observed))
        } else if self.kind == "wrong-error-shape" {
            // keep the outermost error constructor that was observed
            let h: String = self.observed.trim_start_matches("ERR ").chars().take_while(|c| c.is_ascii_alphanumeric()).collect();
            format!("{}:{}", self.kind, h)
        } else {
            self.kind.clone()
        };
        (self.property.clone(), self.clause.clone(), kind)
    }
}

#[derive(Clone, Debug, Serialize, Deserialize)]
pub struct Replay {
    pub scenario: Scenario,
    pub violation: Violation,
    #[serde(default)]
    pub minimised: bool,
    #[serde(default)]
    pub note: String,
}
