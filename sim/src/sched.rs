//! Baton scheduler over real, parked OS threads (S3). Exactly one simulated
//! caller runs at any time; who runs next is decided here, from the scenario's
//! schedule, and recorded as an explicit switch list.

use crate::rng::Rng;
use crate::scenario::Schedule;
use std::sync::{Condvar, Mutex};

pub const SITE_FS: u32 = 100;

pub struct BudgetExceeded;

enum Policy {
    Random { num: u64, den: u64, rng: Rng },
    Pct { prio: Vec<i64>, change_at: Vec<u64>, next_low: i64 },
    Biased { num: u64, den: u64, rng: Rng },
    Explicit { switches: Vec<(u64, usize)>, idx: usize },
}

struct State {
    current: usize,
    live: Vec<bool>,
    started: Vec<bool>,
    step: u64,
    budget: u64,
    policy: Policy,
    switches: Vec<(u64, usize)>,
    /// hash of (thread, site) over state-mutation sites: the interleaving signature
    sig: u64,
    /// per-thread "has in-flight parser state" flag, maintained by SimCtx
    inflight: Vec<bool>,
    in_call: Vec<bool>,
    // reach probes
    pub preempt_inflight: u64,
    pub init_while_other_midcall: u64,
    pub switches_midcall: u64,
}

pub struct Sched {
    m: Mutex<State>,
    cv: Condvar,
    n: usize,
}

#[derive(Clone, Debug, Default, serde::Serialize, serde::Deserialize)]
pub struct SchedReport {
    pub steps: u64,
    pub switches: Vec<(u64, usize)>,
    pub sig: u64,
    pub preempt_inflight: u64,
    pub init_while_other_midcall: u64,
    pub switches_midcall: u64,
}

impl Sched {
    pub fn new(n: usize, schedule: &Schedule, budget: u64) -> Sched {
        let policy = match schedule {
            Schedule::Solo | Schedule::Free => Policy::Explicit {
                switches: vec![],
                idx: 0,
            },
            Schedule::Random { num, den, seed } => Policy::Random {
                num: *num,
                den: *den,
                rng: Rng::new(*seed),
            },
            Schedule::Biased { num, den, seed } => Policy::Biased {
                num: *num,
                den: *den,
                rng: Rng::new(*seed),
            },
            Schedule::Pct {
                depth,
                seed,
                est_steps,
            } => {
                let mut rng = Rng::new(*seed);
                let mut prio: Vec<i64> = (0..n as i64).map(|i| i + *depth as i64 + 1).collect();
                rng.shuffle(&mut prio);
                let mut change_at: Vec<u64> = (0..*depth)
                    .map(|_| 1 + rng.below((*est_steps).max(2)))
                    .collect();
                change_at.sort();
                Policy::Pct {
                    prio,
                    change_at,
                    next_low: *depth as i64,
                }
            }
            Schedule::Explicit { switches } => Policy::Explicit {
                switches: switches.clone(),
                idx: 0,
            },
        };
        Sched {
            m: Mutex::new(State {
                current: 0,
                live: vec![true; n],
                started: vec![false; n],
                step: 0,
                budget,
                policy,
                switches: vec![],
                sig: 0xcbf2_9ce4_8422_2325,
                inflight: vec![false; n],
                in_call: vec![false; n],
                preempt_inflight: 0,
                init_while_other_midcall: 0,
                switches_midcall: 0,
            }),
            cv: Condvar::new(),
            n,
        }
    }

    /// block until this thread is given the baton for the first time
    pub fn thread_start(&self, tid: usize) {
        let mut st = self.m.lock().unwrap();
        st.started[tid] = true;
        while st.current != tid {
            st = self.cv.wait(st).unwrap();
        }
    }

    pub fn thread_finish(&self, tid: usize) {
        let mut st = self.m.lock().unwrap();
        st.live[tid] = false;
        st.in_call[tid] = false;
        st.inflight[tid] = false;
        // hand the baton to the lowest-numbered live thread: no random draw here,
        // so replay needs nothing recorded for it
        if let Some(next) = (0..self.n).find(|i| st.live[*i]) {
            st.current = next;
        }
        self.cv.notify_all();
    }

    pub fn set_in_call(&self, tid: usize, on: bool) {
        let mut st = self.m.lock().unwrap();
        st.in_call[tid] = on;
        if !on {
            st.inflight[tid] = false;
        }
    }

    pub fn set_inflight(&self, tid: usize, on: bool) {
        let mut st = self.m.lock().unwrap();
        st.inflight[tid] = on;
    }

    /// Returns Err(()) when the step budget is exhausted (the caller unwinds).
    pub fn yield_point(&self, tid: usize, site: u32) -> Result<(), ()> {
        let mut st = self.m.lock().unwrap();
        debug_assert!(st.current == tid, "thread {} ran without the baton", tid);
        st.step += 1;
        if st.step > st.budget {
            return Err(());
        }
        let mutation = site != 0;
        if mutation {
            st.sig = (st.sig ^ ((tid as u64) << 8 | site as u64)).wrapping_mul(0x0000_0100_0000_01b3);
        }
        if site == 7 {
            // init(): is another thread in the middle of a call?
            if (0..self.n).any(|i| i != tid && st.live[i] && st.in_call[i]) {
                st.init_while_other_midcall += 1;
            }
        }
        let live: Vec<usize> = (0..self.n).filter(|i| st.live[*i]).collect();
        if live.len() < 2 {
            return Ok(());
        }
        let step = st.step;
        let inflight_now = st.inflight[tid];
        let next = match &mut st.policy {
            Policy::Random { num, den, rng } => {
                if rng.chance(*num, *den) {
                    let others: Vec<usize> = live.iter().cloned().filter(|i| *i != tid).collect();
                    *rng.pick(&others)
                } else {
                    tid
                }
            }
            Policy::Biased { num, den, rng } => {
                let boost = if mutation || inflight_now { 16 } else { 1 };
                if rng.chance((*num * boost).min(*den), *den) {
                    let others: Vec<usize> = live.iter().cloned().filter(|i| *i != tid).collect();
                    *rng.pick(&others)
                } else {
                    tid
                }
            }
            Policy::Pct {
                prio,
                change_at,
                next_low,
            } => {
                while let Some(c) = change_at.first() {
                    if *c <= step {
                        change_at.remove(0);
                        prio[tid] = *next_low;
                        *next_low -= 1;
                    } else {
                        break;
                    }
                }
                *live.iter().max_by_key(|i| prio[**i]).unwrap()
            }
            Policy::Explicit { switches, idx } => {
                let mut next = tid;
                while *idx < switches.len() && switches[*idx].0 <= step {
                    if switches[*idx].0 == step {
                        next = switches[*idx].1;
                    }
                    *idx += 1;
                }
                if next < self.n && st.live[next] {
                    next
                } else {
                    tid
                }
            }
        };
        if next != tid {
            st.switches.push((step, next));
            if st.in_call[tid] {
                st.switches_midcall += 1;
            }
            if inflight_now {
                st.preempt_inflight += 1;
            }
            st.current = next;
            self.cv.notify_all();
            while st.current != tid {
                st = self.cv.wait(st).unwrap();
            }
        }
        Ok(())
    }

    pub fn steps(&self) -> u64 {
        self.m.lock().unwrap().step
    }

    pub fn report(&self) -> SchedReport {
        let st = self.m.lock().unwrap();
        SchedReport {
            steps: st.step,
            switches: st.switches.clone(),
            sig: st.sig,
            preempt_inflight: st.preempt_inflight,
            init_while_other_midcall: st.init_while_other_midcall,
            switches_midcall: st.switches_midcall,
        }
    }
}
