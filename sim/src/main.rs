mod digest;
mod exec;
mod gen;
mod locate_dispatch;
mod prop;
mod props;
mod rng;
mod runner;
mod scenario;
mod sched;
mod vfs;

use scenario::*;

fn smoke() {
    let mut sc = Scenario::new("C00", 1, 0, "quick");
    sc.vfs.push(VNode::file("/w/top.sv", "`include \"a.svh\"\nmodule m; wire `W; endmodule\n"));
    sc.vfs.push(VNode::file("/inc/a.svh", "`define W w\n"));
    let mut c = Call::new(Api::ParseSv, "top.sv");
    c.include_paths = vec!["/inc".into()];
    let mut c2 = Call::new(Api::RawSv, "x");
    c2.text = Some("module a; endmodule".into());
    c2.slot = Some(0);
    sc.threads = vec![vec![Op::Call(c.clone())], vec![Op::Call(c2), Op::Call(c)]];
    sc.schedule = Schedule::Random { num: 1, den: 8, seed: 7 };
    let out = exec::exec(&sc, &exec::ExecOpts { exercise_tree: true });
    for c in &out.calls {
        println!("t{} #{} {} steps={} res={:?}->{:?} memo={:?} ex={:?}", c.thread, c.index, c.short(), c.steps, c.residue_before, c.residue_after, c.memo, c.exercise_fail);
    }
    println!("{}", out.calls[0].full());
    for e in &out.log {
        println!("{:?}", e);
    }
    println!("steps={} switches={:?} err={:?}", out.steps, out.sched.switches.len(), out.harness_error);
    println!("{}", serde_json::to_string_pretty(&sc).unwrap());
}

/// debug helper: svsim pp <text> [ignore_include]: preprocess_str over a tiny fixed file system
fn pp_probe(text: &str, ignore: bool) {
    let mut sc = Scenario::new("C00", 1, 0, "quick");
    sc.vfs.push(VNode::file("/w/f", "F;\n"));
    sc.vfs.push(VNode::file("/w/g", "G;\n"));
    let mut c = Call::new(Api::PreprocessStr, "top.sv");
    c.text = Some(text.to_string());
    c.ignore_include = ignore;
    sc.threads = vec![vec![Op::Call(c)]];
    let out = exec::exec(&sc, &exec::ExecOpts::default());
    let o = &out.calls[0];
    match &o.digest {
        Some(d) if d.is_ok() => println!("OK   {:?}", d.text.clone().unwrap_or_default()),
        Some(d) => println!("ERR  {}", d.err.clone().unwrap_or_default()),
        None => println!("{}", o.short()),
    }
    for e in &out.log {
        println!("     vfs: {} {} -> {:?}", e.op, e.raw_path, e.answer);
    }
}

fn main() {
    let args: Vec<String> = std::env::args().collect();
    match args.get(1).map(|s| s.as_str()) {
        Some("smoke") => smoke(),
        Some("pp") if args.len() >= 3 => pp_probe(&args[2].replace("\\n", "\n"), args.len() > 3),
        Some("check") if args.len() >= 4 => std::process::exit(runner::cmd_check(&args[2], &args[3])),
        Some("worker") if args.len() >= 9 => std::process::exit(runner::cmd_worker(&args[2..])),
        Some("exec1") => std::process::exit(exec::cmd_exec1()),
        Some("eval") if args.len() >= 3 => std::process::exit(runner::cmd_eval(&args[2])),
        Some("replay") if args.len() >= 3 => std::process::exit(runner::cmd_replay(&args[2])),
        _ => {
            eprintln!("usage: svsim check <Cxx> <quick|thorough> | replay <file> | eval <file> | smoke");
            std::process::exit(2);
        }
    }
}
