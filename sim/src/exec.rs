//! Execute a Scenario: real library code on real (parked) threads, against the
//! simulated file system, under the decided schedule.

use crate::digest::{self, Digest};
use crate::scenario::*;
use crate::sched::{BudgetExceeded, Sched, SchedReport, SITE_FS};
use crate::vfs::{Event, Vfs};
use std::cell::RefCell;
use std::collections::{BTreeMap, HashMap};
use std::hash::{BuildHasher, Hasher};
use std::io;
use std::panic::{catch_unwind, AssertUnwindSafe};
use std::path::Path;
use std::sync::atomic::{AtomicU64, AtomicUsize, Ordering};
use std::sync::{Arc, Weak};
use sv_parser::{Define, DefineText};
use nom_packrat::verif as memo;
use sv_parser_parser::verif::{self, Sim};
use sv_parser_parser::{Span, SpanInfo};

// ---------------------------------------------------------------------------------------------
// seeded hasher for caller-supplied define tables (S5)

#[derive(Clone, Copy)]
pub struct SeededState(pub u64);
pub struct SeededHasher(u64);

impl BuildHasher for SeededState {
    type Hasher = SeededHasher;
    fn build_hasher(&self) -> SeededHasher {
        SeededHasher(self.0 ^ 0xcbf2_9ce4_8422_2325)
    }
}

impl Hasher for SeededHasher {
    fn finish(&self) -> u64 {
        let mut z = self.0;
        z = (z ^ (z >> 30)).wrapping_mul(0xBF58_476D_1CE4_E5B9);
        z ^ (z >> 27)
    }
    fn write(&mut self, bytes: &[u8]) {
        for b in bytes {
            self.0 ^= *b as u64;
            self.0 = self.0.wrapping_mul(0x0000_0100_0000_01b3);
        }
    }
}

pub type SeededDefines = HashMap<String, Option<Define>, SeededState>;

pub fn build_defines(specs: &[DefineSpec], seed: u64) -> SeededDefines {
    let mut m: SeededDefines = HashMap::with_hasher(SeededState(seed));
    for d in specs {
        let v = if d.has_value {
            Some(Define::new(
                d.name.clone(),
                d.args.clone(),
                d.text.as_ref().map(|t| DefineText::new(t.clone(), None)),
            ))
        } else {
            None
        };
        m.insert(d.name.clone(), v);
    }
    m
}

// ---------------------------------------------------------------------------------------------
// fixed text slots (S6): the address of an input text is a decided, repeatable choice

pub const SLOTS: usize = 4;
pub const SLOT_BYTES: usize = 1 << 20;

struct SlotArea(*mut u8);
unsafe impl Sync for SlotArea {}
unsafe impl Send for SlotArea {}

static SLOT_AREA: std::sync::OnceLock<SlotArea> = std::sync::OnceLock::new();

fn slot_ptr(k: usize) -> *mut u8 {
    let area = SLOT_AREA.get_or_init(|| {
        let b = vec![0u8; SLOTS * SLOT_BYTES].into_boxed_slice();
        SlotArea(Box::leak(b).as_mut_ptr())
    });
    unsafe { area.0.add((k % SLOTS) * SLOT_BYTES) }
}

/// place `text` in slot k and return it as a &'static str (valid until the slot is rewritten)
fn place_in_slot(k: usize, off: usize, text: &str) -> &'static str {
    assert!(off + text.len() <= SLOT_BYTES, "text too large for a slot");
    unsafe {
        let p = slot_ptr(k).add(off);
        let cur = std::slice::from_raw_parts(p, text.len());
        if cur != text.as_bytes() {
            std::ptr::copy_nonoverlapping(text.as_ptr(), p, text.len());
        }
        std::str::from_utf8_unchecked(std::slice::from_raw_parts(p, text.len()))
    }
}

// ---------------------------------------------------------------------------------------------
// panic capture

thread_local!(static LAST_PANIC: RefCell<Option<String>> = RefCell::new(None));

pub fn install_panic_hook() {
    static ONCE: std::sync::Once = std::sync::Once::new();
    ONCE.call_once(|| {
        std::panic::set_hook(Box::new(|info| {
            if info.payload().is::<BudgetExceeded>() {
                return;
            }
            let msg = if let Some(s) = info.payload().downcast_ref::<&str>() {
                s.to_string()
            } else if let Some(s) = info.payload().downcast_ref::<String>() {
                s.clone()
            } else {
                "<non-string panic payload>".to_string()
            };
            let loc = info
                .location()
                .map(|l| format!("{}:{}", l.file(), l.line()))
                .unwrap_or_default();
            let is_sim = std::thread::current()
                .name()
                .map(|n| n.starts_with("sim-"))
                .unwrap_or(false);
            if is_sim {
                LAST_PANIC.with(|p| *p.borrow_mut() = Some(format!("{} @ {}", msg, loc)));
            } else {
                eprintln!("svsim: harness panic: {} @ {}", msg, loc);
            }
        }));
    });
}

// ---------------------------------------------------------------------------------------------

pub struct Shared {
    pub vfs: Arc<Vfs>,
    pub sched: Option<Sched>,
    pub solo_steps: AtomicU64,
    pub budget: u64,
}

pub struct SimCtx {
    tid: usize,
    shared: Arc<Shared>,
    me: Weak<SimCtx>,
    file_depth: AtomicUsize,
    macro_depth: AtomicUsize,
    max_file_depth: AtomicUsize,
    max_macro_depth: AtomicUsize,
    /// maximum of file_depth + macro_depth at the same time: true recursion nesting
    max_nest: AtomicUsize,
    /// file nesting at the most recent scope entry: where the call was when it stopped descending
    file_depth_at_last_enter: AtomicUsize,
    sites: [AtomicU64; 8],
    steps: AtomicU64,
    /// offset of the last grammar terminal tried: identifies which directive a keyword-stack event belongs to
    last_ws_offset: AtomicUsize,
    /// (site, offset of the directive's last terminal, version-stack depth before the event)
    kw_events: std::sync::Mutex<Vec<(u32, usize, usize)>>,
}

impl SimCtx {
    fn new(tid: usize, shared: Arc<Shared>) -> Arc<SimCtx> {
        Arc::new_cyclic(|me| SimCtx {
            tid,
            shared,
            me: me.clone(),
            file_depth: AtomicUsize::new(0),
            macro_depth: AtomicUsize::new(0),
            max_file_depth: AtomicUsize::new(0),
            max_macro_depth: AtomicUsize::new(0),
            max_nest: AtomicUsize::new(0),
            file_depth_at_last_enter: AtomicUsize::new(0),
            sites: Default::default(),
            steps: AtomicU64::new(0),
            last_ws_offset: AtomicUsize::new(0),
            kw_events: std::sync::Mutex::new(vec![]),
        })
    }

    fn depths(&self) -> (usize, usize) {
        (
            self.file_depth.load(Ordering::Relaxed),
            self.macro_depth.load(Ordering::Relaxed),
        )
    }

    fn do_step(&self, site: u32) {
        self.steps.fetch_add(1, Ordering::Relaxed);
        if site == verif::SITE_KW_BEGIN || site == verif::SITE_KW_END || site == verif::SITE_KW_BEGIN_DIRECTIVE || site == verif::SITE_KW_CLEAR {
            let (_, v) = verif::residue();
            if let Ok(mut ev) = self.kw_events.lock() {
                ev.push((site, self.last_ws_offset.load(Ordering::Relaxed), v));
            }
        }
        if (site as usize) < 8 {
            self.sites[site as usize].fetch_add(1, Ordering::Relaxed);
        }
        match &self.shared.sched {
            Some(s) => {
                let (d, v) = verif::residue();
                s.set_inflight(self.tid, d > 0 || v > 0);
                if s.yield_point(self.tid, site).is_err() {
                    std::panic::panic_any(BudgetExceeded);
                }
            }
            None => {
                let n = self.shared.solo_steps.fetch_add(1, Ordering::Relaxed) + 1;
                if n > self.shared.budget {
                    std::panic::panic_any(BudgetExceeded);
                }
            }
        }
    }
}

struct YieldingReader {
    inner: crate::vfs::SimReader,
    ctx: Arc<SimCtx>,
}

impl io::Read for YieldingReader {
    fn read(&mut self, buf: &mut [u8]) -> io::Result<usize> {
        self.ctx.do_step(SITE_FS);
        self.inner.read(buf)
    }
}

impl Sim for SimCtx {
    fn step(&self, site: u32) {
        self.do_step(site)
    }
    fn step_at(&self, site: u32, offset: usize) {
        self.last_ws_offset.store(offset, Ordering::Relaxed);
        self.do_step(site)
    }
    fn fs_open(&self, path: &Path) -> io::Result<Box<dyn io::Read>> {
        self.do_step(SITE_FS);
        let raw = path.to_string_lossy().to_string();
        let r = self.shared.vfs.open(self.tid, &raw, self.depths())?;
        let ctx = self.me.upgrade().expect("sim ctx alive");
        Ok(Box::new(YieldingReader { inner: r, ctx }))
    }
    fn fs_exists(&self, path: &Path) -> bool {
        self.do_step(SITE_FS);
        let raw = path.to_string_lossy().to_string();
        self.shared.vfs.exists(self.tid, &raw, self.depths())
    }
    fn scope(&self, kind: u8, enter: bool, _name: &str) {
        let (cur, max) = if kind == verif::SCOPE_FILE {
            (&self.file_depth, &self.max_file_depth)
        } else {
            (&self.macro_depth, &self.max_macro_depth)
        };
        if enter {
            let v = cur.fetch_add(1, Ordering::Relaxed) + 1;
            max.fetch_max(v, Ordering::Relaxed);
            let (f, m) = self.depths();
            self.max_nest.fetch_max(f + m, Ordering::Relaxed);
            self.file_depth_at_last_enter.store(f, Ordering::Relaxed);
        } else {
            let _ = cur.fetch_update(Ordering::Relaxed, Ordering::Relaxed, |v| Some(v.saturating_sub(1)));
        }
    }
}

// ---------------------------------------------------------------------------------------------

/// counters of the instrumented memo (copied out of nom_packrat::verif)
#[derive(Clone, Copy, Debug, Default, serde::Serialize, serde::Deserialize)]
pub struct MemoStats {
    pub gets: u64,
    pub hits: u64,
    pub misses: u64,
    pub inserts: u64,
    pub evictions: u64,
    pub misses_after_evict: u64,
    pub max_len: u64,
}

fn memo_stats() -> MemoStats {
    let m = memo::stats();
    MemoStats {
        gets: m.gets,
        hits: m.hits,
        misses: m.misses,
        inserts: m.inserts,
        evictions: m.evictions,
        misses_after_evict: m.misses_after_evict,
        max_len: m.max_len,
    }
}

#[derive(Clone, Debug, Default, serde::Serialize, serde::Deserialize)]
pub struct ExecOpts {
    /// C08: after an Ok, walk the tree, format it, convert every node to Locate, look up origins
    pub exercise_tree: bool,
}

#[derive(Clone, Debug, serde::Serialize, serde::Deserialize)]
pub struct CallOutcome {
    pub thread: usize,
    /// index of the op in the thread's program
    pub index: usize,
    pub digest: Option<Digest>,
    pub panic: Option<String>,
    pub budget_exceeded: bool,
    pub steps: u64,
    pub residue_before: (usize, usize, usize),
    pub residue_after: (usize, usize, usize),
    pub memo: MemoStats,
    pub max_file_depth: usize,
    pub max_macro_depth: usize,
    pub max_nest: usize,
    /// include nesting at the last scope entry of the call (for a failing call: where it failed)
    #[serde(default)]
    pub last_file_depth: usize,
    pub text_addr: usize,
    pub sites: [u64; 8],
    /// what exercising the Ok tree found (C08), empty if fine
    pub exercise_fail: Option<String>,
    /// keyword-version pushes / pops executed again for a directive (same text offset) that had already
    /// executed one, counting a pop only if it removed an entry: replayed side effects that mattered
    #[serde(default)]
    pub kw_replayed_pushes: u64,
    #[serde(default)]
    pub kw_replayed_effective_pops: u64,
}

impl CallOutcome {
    pub fn short(&self) -> String {
        if let Some(p) = &self.panic {
            return format!("PANIC {}", p);
        }
        if self.budget_exceeded {
            return "BUDGET".to_string();
        }
        self.digest.as_ref().map(|d| d.short()).unwrap_or_default()
    }
    pub fn full(&self) -> String {
        if let Some(p) = &self.panic {
            return format!("PANIC {}\n", p);
        }
        if self.budget_exceeded {
            return "BUDGET\n".to_string();
        }
        self.digest.as_ref().map(|d| d.full.clone()).unwrap_or_default()
    }
    pub fn same_result(&self, other: &CallOutcome) -> bool {
        self.short() == other.short()
    }
}

#[derive(Clone, Debug, Default, serde::Serialize, serde::Deserialize)]
pub struct RunOutcome {
    pub calls: Vec<CallOutcome>,
    pub log: Vec<Event>,
    pub sched: SchedReport,
    pub steps: u64,
    pub fired: BTreeMap<String, u64>,
    pub open_budget_tripped: bool,
    pub harness_error: Option<String>,
    /// the process executing the scenario died (signal / abort), e.g. stack overflow
    #[serde(default)]
    pub aborted: Option<String>,
}

impl RunOutcome {
    pub fn call(&self, thread: usize, index: usize) -> Option<&CallOutcome> {
        self.calls.iter().find(|c| c.thread == thread && c.index == index)
    }
}

thread_local!(static CUR_KNOBS: RefCell<(Option<usize>, bool)> = RefCell::new((None, false)));

/// (directive stack depth, keyword-version stack depth, memo entries) left on this thread
fn residue3() -> (usize, usize, usize) {
    let (d, v) = verif::residue();
    (d, v, memo::len())
}

fn apply_memo_knobs(call: &Call) {
    verif::set_version_frozen(call.freeze_version);
    memo::set_suppress_flag_stale(call.suppress_flag_stale);
    CUR_KNOBS.with(|k| {
        let mut k = k.borrow_mut();
        if k.1 != call.flag_aware {
            memo::set_flag_aware(call.flag_aware);
            k.1 = call.flag_aware;
        }
        if k.0 != call.memo_capacity {
            // None = the capacity the library declares (1024); Some(0) = unbounded; Some(n) = n entries
            let cap = match call.memo_capacity {
                None => None,
                Some(0) => Some(None),
                Some(n) => Some(Some(n)),
            };
            memo::set_capacity(cap);
            k.0 = call.memo_capacity;
        }
    });
}

fn exercise_tree(tree: &sv_parser::SyntaxTree) -> Result<(), String> {
    use sv_parser::{NodeEvent, RefNode};
    let text = tree.verif_text();
    // plain and event iteration agree and events are balanced
    let plain: Vec<RefNode> = tree.into_iter().collect();
    let mut depth: i64 = 0;
    let mut enters = 0usize;
    for ev in tree.into_iter().event() {
        match ev {
            NodeEvent::Enter(_) => {
                depth += 1;
                enters += 1;
            }
            NodeEvent::Leave(_) => depth -= 1,
        }
        if depth < 0 {
            return Err("event iteration: Leave without Enter".into());
        }
    }
    if depth != 0 || enters != plain.len() {
        return Err(format!("event iteration unbalanced: depth {} enters {} plain {}", depth, enters, plain.len()));
    }
    // tokens must lie inside the text before anything slices it unchecked (Display/Debug use get_str)
    for n in &plain {
        if let RefNode::Locate(l) = n {
            if text.get(l.offset..l.offset.wrapping_add(l.len)).is_none() {
                return Err(format!("token {:?} outside text / off char boundary", l));
            }
        }
    }
    let _ = format!("{}", tree);
    let _ = format!("{:?}", tree);
    for n in &plain {
        let _ = crate::locate_dispatch::locate_try_from(n);
        if let RefNode::Locate(l) = n {
            let _ = tree.get_origin(l);
            let _ = tree.get_str(*l);
        }
    }
    Ok(())
}

fn raw_result<'a, T: Into<sv_parser::AnyNode>>(
    r: Result<(Span<'a>, T), nom::Err<nom_greedyerror::GreedyError<Span<'a>, nom::error::ErrorKind>>>,
) -> Result<(usize, sv_parser::AnyNode), Option<usize>> {
    match r {
        Ok((rest, node)) => Ok((rest.location_offset(), node.into())),
        Err(nom::Err::Incomplete(_)) => Err(None),
        Err(nom::Err::Error(e)) => Err(nom_greedyerror::error_position(&e)),
        Err(nom::Err::Failure(e)) => Err(nom_greedyerror::error_position(&e)),
    }
}

fn dispatch(call: &Call, vfs: &Vfs, opts: &ExecOpts, text_addr: &mut usize, exercise_fail: &mut Option<String>) -> Digest {
    let defines = build_defines(&call.defines, call.hash_seed);
    let incs: Vec<String> = call.include_paths.clone();
    let owned_text: String;
    let text: &str = if call.api.reads_file() {
        ""
    } else {
        owned_text = match &call.text {
            Some(t) => t.clone(),
            None => match vfs.peek(&call.path) {
                Some(b) => String::from_utf8_lossy(&b).to_string(),
                None => String::new(),
            },
        };
        match call.slot {
            Some(k) => place_in_slot(k as usize, call.slot_off, &owned_text),
            None => &owned_text,
        }
    };
    *text_addr = text.as_ptr() as usize;
    let path = call.path.as_str();
    let mut tree_digest = |r: Result<(sv_parser::SyntaxTree, sv_parser::Defines), sv_parser::Error>| -> Digest {
        if opts.exercise_tree {
            if let Ok((tree, _)) = &r {
                if let Err(e) = exercise_tree(tree) {
                    *exercise_fail = Some(e);
                }
            }
        }
        digest::digest_tree(&r)
    };
    match call.api {
        Api::Preprocess => digest::digest_pp(&sv_parser::preprocess(
            path,
            &defines,
            &incs,
            call.strip_comments,
            call.ignore_include,
        )),
        Api::PreprocessStr => digest::digest_pp(&sv_parser::preprocess_str(
            text,
            path,
            &defines,
            &incs,
            call.ignore_include,
            call.strip_comments,
            0,
            0,
        )),
        Api::ParseSv => tree_digest(sv_parser::parse_sv(
            path,
            &defines,
            &incs,
            call.ignore_include,
            call.allow_incomplete,
        )),
        Api::ParseSvStr => tree_digest(sv_parser::parse_sv_str(
            text,
            path,
            &defines,
            &incs,
            call.ignore_include,
            call.allow_incomplete,
        )),
        Api::ParseLib => tree_digest(sv_parser::parse_lib(
            path,
            &defines,
            &incs,
            call.ignore_include,
            call.allow_incomplete,
        )),
        Api::ParseLibStr => tree_digest(sv_parser::parse_lib_str(
            text,
            path,
            &defines,
            &incs,
            call.ignore_include,
            call.allow_incomplete,
        )),
        Api::ParseSvPp | Api::ParseLibPp => {
            match sv_parser::preprocess(path, &defines, &incs, false, call.ignore_include) {
                Err(e) => digest::digest_err(&e),
                Ok((t, d)) => {
                    if call.api == Api::ParseSvPp {
                        tree_digest(sv_parser::parse_sv_pp(t, d, call.allow_incomplete))
                    } else {
                        tree_digest(sv_parser::parse_lib_pp(t, d, call.allow_incomplete))
                    }
                }
            }
        }
        Api::ParseSvPpStr | Api::ParseLibPpStr => {
            match sv_parser::preprocess_str(text, path, &defines, &incs, call.ignore_include, false, 0, 0) {
                Err(e) => digest::digest_err(&e),
                Ok((t, d)) => {
                    if call.api == Api::ParseSvPpStr {
                        tree_digest(sv_parser::parse_sv_pp(t, d, call.allow_incomplete))
                    } else {
                        tree_digest(sv_parser::parse_lib_pp(t, d, call.allow_incomplete))
                    }
                }
            }
        }
        Api::RawSv => digest::digest_raw(
            text,
            &raw_result(sv_parser_parser::sv_parser(Span::new_extra(text, SpanInfo::default()))),
        ),
        Api::RawSvIncomplete => digest::digest_raw(
            text,
            &raw_result(sv_parser_parser::sv_parser_incomplete(Span::new_extra(
                text,
                SpanInfo::default(),
            ))),
        ),
        Api::RawLib => digest::digest_raw(
            text,
            &raw_result(sv_parser_parser::lib_parser(Span::new_extra(text, SpanInfo::default()))),
        ),
        Api::RawLibIncomplete => digest::digest_raw(
            text,
            &raw_result(sv_parser_parser::lib_parser_incomplete(Span::new_extra(
                text,
                SpanInfo::default(),
            ))),
        ),
        Api::RawPp => digest::digest_raw(
            text,
            &raw_result(sv_parser_parser::pp_parser(Span::new_extra(text, SpanInfo::default()))),
        ),
    }
}

fn run_call(ctx: &Arc<SimCtx>, tid: usize, index: usize, call: &Call, opts: &ExecOpts) -> CallOutcome {
    let shared = &ctx.shared;
    shared.vfs.begin_call(tid, index, &call.faults);
    apply_memo_knobs(call);
    memo::reset_stats();
    let residue_before = residue3();
    let steps0 = ctx.steps.load(Ordering::Relaxed);
    let sites0: Vec<u64> = ctx.sites.iter().map(|a| a.load(Ordering::Relaxed)).collect();
    ctx.file_depth.store(0, Ordering::Relaxed);
    ctx.macro_depth.store(0, Ordering::Relaxed);
    ctx.max_file_depth.store(0, Ordering::Relaxed);
    ctx.max_macro_depth.store(0, Ordering::Relaxed);
    ctx.max_nest.store(0, Ordering::Relaxed);
    ctx.file_depth_at_last_enter.store(0, Ordering::Relaxed);
    if let Some(s) = &shared.sched {
        s.set_in_call(tid, true);
    }
    LAST_PANIC.with(|p| *p.borrow_mut() = None);
    if let Ok(mut ev) = ctx.kw_events.lock() {
        ev.clear();
    }
    let mut text_addr = 0usize;
    let mut exercise_fail = None;
    let r = catch_unwind(AssertUnwindSafe(|| {
        dispatch(call, &shared.vfs, opts, &mut text_addr, &mut exercise_fail)
    }));
    if let Some(s) = &shared.sched {
        s.set_in_call(tid, false);
    }
    let (digest, panic, budget_exceeded) = match r {
        Ok(d) => (Some(d), None, false),
        Err(payload) => {
            if payload.is::<BudgetExceeded>() {
                (None, None, true)
            } else {
                let msg = LAST_PANIC
                    .with(|p| p.borrow_mut().take())
                    .unwrap_or_else(|| "<panic>".to_string());
                (None, Some(msg), false)
            }
        }
    };
    let mut sites = [0u64; 8];
    for i in 0..8 {
        sites[i] = ctx.sites[i].load(Ordering::Relaxed) - sites0[i];
    }
    let (mut rp, mut rq) = (0u64, 0u64);
    if let Ok(ev) = ctx.kw_events.lock() {
        if std::env::var("SVSIM_DEBUG_KW").is_ok() {
            eprintln!("kw events (site, offset, depth before): {:?}", *ev);
        }
        // a shadow of the version stack tells region pushes from the balanced pushes of macro-name lexing;
        // a region event is "replayed" when the same directive (same text offset) already executed one
        let mut shadow: Vec<bool> = vec![]; // true = `begin_keywords region entry
        let mut seen_push: std::collections::HashSet<usize> = Default::default();
        let mut seen_pop: std::collections::HashSet<usize> = Default::default();
        for (site, off, _depth) in ev.iter() {
            if *site == verif::SITE_KW_CLEAR {
                // a new parser run (init): offsets now refer to another text / another pass over it
                shadow.clear();
                seen_push.clear();
                seen_pop.clear();
            } else if *site == verif::SITE_KW_BEGIN_DIRECTIVE {
                shadow.push(false);
            } else if *site == verif::SITE_KW_BEGIN {
                shadow.push(true);
                if !seen_push.insert(*off) {
                    rp += 1;
                }
            } else {
                // a pop: of what?
                match shadow.pop() {
                    Some(false) => {}
                    Some(true) => {
                        if !seen_pop.insert(*off) {
                            rq += 1;
                        }
                    }
                    None => {
                        seen_pop.insert(*off);
                    }
                }
            }
        }
    }
    CallOutcome {
        kw_replayed_pushes: rp,
        kw_replayed_effective_pops: rq,
        thread: tid,
        index,
        digest,
        panic,
        budget_exceeded,
        steps: ctx.steps.load(Ordering::Relaxed) - steps0,
        residue_before,
        residue_after: residue3(),
        memo: memo_stats(),
        max_file_depth: ctx.max_file_depth.load(Ordering::Relaxed),
        max_macro_depth: ctx.max_macro_depth.load(Ordering::Relaxed),
        max_nest: ctx.max_nest.load(Ordering::Relaxed),
        last_file_depth: ctx.file_depth_at_last_enter.load(Ordering::Relaxed),
        text_addr,
        sites,
        exercise_fail,
    }
}

struct FinishGuard<'a> {
    shared: &'a Shared,
    tid: usize,
}

impl<'a> Drop for FinishGuard<'a> {
    fn drop(&mut self) {
        verif::install(None);
        if let Some(s) = &self.shared.sched {
            s.thread_finish(self.tid);
        }
    }
}

fn exec_inproc(sc: &Scenario, opts: &ExecOpts) -> RunOutcome {
    install_panic_hook();
    let vfs = Arc::new(Vfs::new(&sc.cwd, &sc.vfs, sc.knobs.open_budget));
    let n = sc.threads.len();
    let free = matches!(sc.schedule, Schedule::Free);
    let sched = if n > 1 && !free {
        Some(Sched::new(n, &sc.schedule, sc.knobs.step_budget))
    } else {
        None
    };
    let barrier = Arc::new(std::sync::Barrier::new(n.max(1)));
    let shared = Arc::new(Shared {
        vfs: vfs.clone(),
        sched,
        solo_steps: AtomicU64::new(0),
        budget: sc.knobs.step_budget,
    });
    let mut out = RunOutcome::default();
    if n > 1 {
        // a slot used by several threads carries one text for the whole run (threads only read it);
        // a slot used by one thread is rewritten by that thread alone, between its own calls
        let mut users: HashMap<u8, Vec<(usize, &str)>> = HashMap::new();
        for (tid, prog) in sc.threads.iter().enumerate() {
            for op in prog {
                if let Op::Call(c) = op {
                    if let (Some(k), Some(t)) = (c.slot, c.text.as_ref()) {
                        users.entry(k % SLOTS as u8).or_default().push((tid, t.as_str()));
                    }
                }
            }
        }
        for (k, us) in &users {
            let shared = us.iter().any(|(t, _)| *t != us[0].0);
            if shared {
                if us.iter().any(|(_, text)| *text != us[0].1) {
                    out.harness_error = Some("two texts in one slot shared by several threads".into());
                    return out;
                }
                place_in_slot(*k as usize, 0, us[0].1);
            }
        }
    }
    let mut handles = vec![];
    for (tid, prog) in sc.threads.iter().enumerate() {
        let prog = prog.clone();
        let shared = shared.clone();
        let opts = opts.clone();
        let barrier = barrier.clone();
        let h = std::thread::Builder::new()
            .name(format!("sim-{}", tid))
            .stack_size(sc.knobs.stack_mib.max(1) << 20)
            .spawn(move || {
                let ctx = SimCtx::new(tid, shared.clone());
                if let Some(s) = &shared.sched {
                    s.thread_start(tid);
                } else if free {
                    barrier.wait();
                }
                let _guard = FinishGuard { shared: &shared, tid };
                verif::install(Some(ctx.clone() as Arc<dyn Sim>));
                let mut res = vec![];
                for (index, op) in prog.iter().enumerate() {
                    match op {
                        Op::Call(c) => res.push(run_call(&ctx, tid, index, c, &opts)),
                        Op::Rewrite { path, bytes } => shared.vfs.rewrite(path, bytes.to_vec()),
                        Op::Remove { path } => shared.vfs.remove(path),
                    }
                }
                res
            });
        match h {
            Ok(h) => handles.push(h),
            Err(e) => {
                out.harness_error = Some(format!("spawn failed: {}", e));
                return out;
            }
        }
    }
    for h in handles {
        match h.join() {
            Ok(mut v) => out.calls.append(&mut v),
            Err(_) => out.harness_error = Some("a simulated thread died outside a call".into()),
        }
    }
    out.log = vfs.log();
    out.fired = vfs.fired().into_iter().map(|(k, v)| (k.to_string(), v)).collect();
    out.open_budget_tripped = vfs.budget_tripped();
    match &shared.sched {
        Some(s) => {
            out.sched = s.report();
            out.steps = out.sched.steps;
        }
        None => out.steps = shared.solo_steps.load(Ordering::Relaxed),
    }
    out
}

/// The same call as the only call of a newly spawned thread, against the given
/// file-system snapshot: the reference for C07 and C19.
pub fn exec_solo(base: &Scenario, vfs: &[VNode], call: &Call, opts: &ExecOpts) -> RunOutcome {
    let mut sc = base.clone();
    sc.vfs = vfs.to_vec();
    sc.threads = vec![vec![Op::Call(call.clone())]];
    sc.schedule = Schedule::Solo;
    exec(&sc, opts)
}

/// state of the file system before op `index` of a single-thread program
pub fn vfs_before(sc: &Scenario, thread: usize, index: usize) -> Vec<VNode> {
    let mut nodes: BTreeMap<String, VNode> = BTreeMap::new();
    for n in &sc.vfs {
        nodes.insert(crate::vfs::normalise(&sc.cwd, n.path()), n.clone());
    }
    for op in sc.threads[thread].iter().take(index) {
        match op {
            Op::Rewrite { path, bytes } => {
                let p = crate::vfs::normalise(&sc.cwd, path);
                nodes.insert(
                    p.clone(),
                    VNode::File {
                        path: p,
                        bytes: bytes.clone(),
                    },
                );
            }
            Op::Remove { path } => {
                nodes.remove(&crate::vfs::normalise(&sc.cwd, path));
            }
            Op::Call(_) => {}
        }
    }
    nodes.into_values().collect()
}

// ---------------------------------------------------------------------------------------------
// process isolation: every execution of a scenario happens in a pristine child process, so
// that (1) process-wide state (a `static` cache) left by one execution can neither hide nor
// fake a difference in another, (2) "fresh thread" references are also fresh processes,
// (3) a stack overflow kills only the execution it belongs to, (4) a replay in a new process
// sees exactly what the batch saw.

static IN_CHILD: std::sync::atomic::AtomicBool = std::sync::atomic::AtomicBool::new(false);

const FULL_LIMIT: usize = 16 * 1024;

#[derive(serde::Serialize, serde::Deserialize)]
struct ExecRequest {
    scenario: Scenario,
    opts: ExecOpts,
}

/// `svsim exec1`: read one request from stdin, execute, write the outcome to stdout
pub fn cmd_exec1() -> i32 {
    IN_CHILD.store(true, Ordering::Relaxed);
    let mut input = String::new();
    if std::io::Read::read_to_string(&mut std::io::stdin(), &mut input).is_err() {
        return 2;
    }
    let req: ExecRequest = match serde_json::from_str(&input) {
        Ok(r) => r,
        Err(e) => {
            eprintln!("svsim exec1: {}", e);
            return 2;
        }
    };
    let mut out = exec_inproc(&req.scenario, &req.opts);
    for c in out.calls.iter_mut() {
        if let Some(d) = c.digest.as_mut() {
            if d.full.len() > FULL_LIMIT {
                let mut cut = FULL_LIMIT;
                while !d.full.is_char_boundary(cut) {
                    cut -= 1;
                }
                d.full.truncate(cut);
                d.full.push_str("\n<canonical form truncated; hashes cover all of it>\n");
            }
        }
    }
    let so = std::io::stdout();
    let mut l = so.lock();
    use std::io::Write;
    let _ = writeln!(l, "{}", serde_json::to_string(&out).unwrap_or_default());
    let _ = l.flush();
    0
}

pub fn exec(sc: &Scenario, opts: &ExecOpts) -> RunOutcome {
    if IN_CHILD.load(Ordering::Relaxed) || std::env::var("SVSIM_INPROC").is_ok() {
        return exec_inproc(sc, opts);
    }
    use std::io::Write;
    use std::process::{Command, Stdio};
    let mut out = RunOutcome::default();
    let exe = match std::env::current_exe() {
        Ok(e) => e,
        Err(e) => {
            out.harness_error = Some(format!("current_exe: {}", e));
            return out;
        }
    };
    let req = serde_json::to_string(&ExecRequest { scenario: sc.clone(), opts: opts.clone() }).unwrap_or_default();
    let child = Command::new(exe)
        .arg("exec1")
        .stdin(Stdio::piped())
        .stdout(Stdio::piped())
        .stderr(Stdio::null())
        .spawn();
    let mut child = match child {
        Ok(c) => c,
        Err(e) => {
            out.harness_error = Some(format!("spawn exec1: {}", e));
            return out;
        }
    };
    if let Some(mut stdin) = child.stdin.take() {
        let _ = stdin.write_all(req.as_bytes());
    }
    // last-resort watchdog for a loop that contains no yield point (no grammar terminal, no file
    // operation): wall-clock time is used only here, and only to end such an execution
    let limit = std::time::Duration::from_secs(
        std::env::var("SVSIM_WATCHDOG_S").ok().and_then(|s| s.parse().ok()).unwrap_or(240),
    );
    let stdout = child.stdout.take();
    let reader = std::thread::spawn(move || {
        let mut buf = Vec::new();
        if let Some(mut so) = stdout {
            let _ = std::io::Read::read_to_end(&mut so, &mut buf);
        }
        buf
    });
    let t0 = std::time::Instant::now();
    let status = loop {
        match child.try_wait() {
            Ok(Some(st)) => break Ok(st),
            Ok(None) => {
                if t0.elapsed() > limit {
                    let _ = child.kill();
                    let _ = child.wait();
                    let _ = reader.join();
                    out.aborted = Some(format!("watchdog: no result after {} s of wall-clock time", limit.as_secs()));
                    return out;
                }
                std::thread::sleep(std::time::Duration::from_micros(if t0.elapsed().as_millis() < 20 { 200 } else { 2000 }));
            }
            Err(e) => break Err(e),
        }
    };
    let res = status.map(|st| std::process::Output { status: st, stdout: reader.join().unwrap_or_default(), stderr: vec![] });
    match res {
        Err(e) => {
            out.harness_error = Some(format!("wait exec1: {}", e));
            out
        }
        Ok(o) => {
            let text = String::from_utf8_lossy(&o.stdout);
            if let Some(line) = text.lines().find(|l| l.starts_with('{')) {
                match serde_json::from_str::<RunOutcome>(line) {
                    Ok(r) => return r,
                    Err(e) => {
                        out.harness_error = Some(format!("bad exec1 outcome: {}", e));
                        return out;
                    }
                }
            }
            use std::os::unix::process::ExitStatusExt;
            match o.status.signal() {
                Some(sig) => out.aborted = Some(format!("signal {}", sig)),
                None => out.harness_error = Some(format!("exec1 exit {:?} without outcome", o.status.code())),
            }
            out
        }
    }
}
