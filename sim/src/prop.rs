//! What a property check has to provide to the runner.

use crate::scenario::{Scenario, Violation};
use serde::{Deserialize, Serialize};
use std::collections::BTreeMap;

#[derive(Clone, Debug, Default, Serialize, Deserialize)]
pub struct RunReport {
    pub violations: Vec<Violation>,
    /// (finding id proposed by a mechanical matcher, the violation it explains)
    pub matched: Vec<(String, Violation)>,
    pub nontrivial: bool,
    pub distinct_key: u64,
    pub probes: BTreeMap<String, u64>,
    pub fired: BTreeMap<String, u64>,
    pub steps: u64,
    /// simulated executions performed for this run (including references)
    pub execs: u64,
    pub harness_error: Option<String>,
    pub sample: Option<serde_json::Value>,
    /// the scenario with every lazily made choice frozen (explicit switch list), for the replay file
    #[serde(default)]
    pub replay_scenario: Option<Scenario>,
}

impl RunReport {
    /// counters add up; names starting with "max_" keep the maximum
    pub fn probe(&mut self, name: &str, n: u64) {
        merge_probe(&mut self.probes, name, n);
    }
    pub fn fire(&mut self, fired: &BTreeMap<String, u64>) {
        for (k, v) in fired {
            *self.fired.entry(k.to_string()).or_insert(0) += *v;
        }
    }
}

pub fn merge_probe(m: &mut BTreeMap<String, u64>, name: &str, n: u64) {
    let e = m.entry(name.to_string()).or_insert(0);
    if name.starts_with("max_") {
        *e = (*e).max(n);
    } else {
        *e += n;
    }
}

pub trait Property: Sync {
    fn id(&self) -> &'static str;
    /// evidence level: "exploration" | "fault_enumeration"
    fn level(&self) -> &'static str;
    /// number of runs for a tier (quick | thorough)
    fn runs(&self, tier: &str) -> u64;
    /// wall-clock cap for the batch in seconds (budget only, never an oracle)
    fn time_cap_s(&self, tier: &str) -> u64 {
        if tier == "thorough" {
            900
        } else {
            150
        }
    }
    fn generate(&self, seed: u64, run: u64, tier: &str) -> Scenario;
    fn check(&self, sc: &Scenario) -> RunReport;
    fn rule(&self) -> String;
    fn assumptions(&self) -> Vec<String>;
    /// is this scenario inside the domain the oracle is defined on? (shrinking must stay inside)
    fn valid(&self, _sc: &Scenario) -> bool {
        true
    }
    /// property-specific shrink steps, tried before the generic ones
    fn shrink(&self, _sc: &Scenario) -> Vec<Scenario> {
        vec![]
    }
    /// true if a run may kill the process (stack overflow): evaluate in a child process only
    fn may_abort(&self) -> bool {
        false
    }
    /// probes that must be non-zero for the batch to count as having reached its target
    fn required_probes(&self) -> Vec<&'static str> {
        vec![]
    }
    /// whether the run family is enumerated completely in this tier
    fn exhaustive(&self, _tier: &str) -> bool {
        false
    }
}

pub fn all() -> Vec<Box<dyn Property>> {
    vec![
        Box::new(crate::props::c07::C07),
        Box::new(crate::props::c08::C08),
        Box::new(crate::props::c09::C09),
        Box::new(crate::props::c10::C10),
        Box::new(crate::props::c17::C17),
        Box::new(crate::props::c19::C19),
        Box::new(crate::props::c20::C20),
    ]
}

pub fn by_id(id: &str) -> Option<Box<dyn Property>> {
    all().into_iter().find(|p| p.id() == id)
}
