//! Workload generators. Every choice comes from the run's PRNG.

use crate::rng::Rng;
use crate::scenario::*;
use serde::Deserialize;
use std::collections::BTreeMap;

// ---------------------------------------------------------------------------------------------
// vendored corpus (the repo's own examples, extracted once)

#[derive(Deserialize)]
pub struct Snippet {
    pub name: String,
    pub kind: String,
    pub text: String,
}

#[derive(Deserialize)]
pub struct FileBody {
    pub text: Option<String>,
    pub hex: Option<String>,
}

#[derive(Deserialize)]
pub struct Corpus {
    pub snippets: Vec<Snippet>,
    pub files: BTreeMap<String, FileBody>,
}

pub fn corpus() -> &'static Corpus {
    static C: std::sync::OnceLock<Corpus> = std::sync::OnceLock::new();
    C.get_or_init(|| serde_json::from_str(include_str!("../corpus/corpus.json")).expect("corpus.json"))
}

/// snippets of at most `max` bytes
pub fn corpus_sv(rng: &mut Rng, max: usize) -> &'static str {
    let c = corpus();
    for _ in 0..64 {
        let s = rng.pick(&c.snippets);
        if s.kind == "sv" && s.text.len() <= max {
            return &s.text;
        }
    }
    "module m; endmodule\n"
}

pub fn corpus_lib(rng: &mut Rng) -> &'static str {
    let c = corpus();
    let libs: Vec<&Snippet> = c.snippets.iter().filter(|s| s.kind == "lib").collect();
    if libs.is_empty() {
        return "library l a.v;\n";
    }
    &rng.pick(&libs).text
}

// ---------------------------------------------------------------------------------------------
// grammar-directed SystemVerilog

const IDENTS: &[&str] = &[
    "a", "b", "c", "clk", "rst_n", "data", "q", "d", "sel", "en", "cnt", "state", "nxt", "valid", "ready", "x1", "y_2",
    "module_x", "end1", "wirex", "logic_", "tmp",
];

fn ident(rng: &mut Rng) -> String {
    rng.pick(IDENTS).to_string()
}

fn trivia(rng: &mut Rng) -> String {
    match rng.below(12) {
        0 => "\n".into(),
        1 => "  ".into(),
        2 => " /* c */ ".into(),
        3 => " // note\n".into(),
        4 => "\t".into(),
        _ => " ".into(),
    }
}

fn number(rng: &mut Rng) -> String {
    match rng.below(8) {
        0 => "0".into(),
        1 => "1".into(),
        2 => format!("{}", rng.below(256)),
        3 => format!("8'h{:02x}", rng.below(256)),
        4 => format!("4'b{:04b}", rng.below(16)),
        5 => "'0".into(),
        6 => format!("{}'d{}", 1 + rng.below(16), rng.below(100)),
        _ => "1'b1".into(),
    }
}

pub fn expr(rng: &mut Rng, depth: u32) -> String {
    if depth == 0 || rng.chance(2, 5) {
        return match rng.below(5) {
            0 | 1 => ident(rng),
            2 => number(rng),
            3 => format!("{}[{}]", ident(rng), rng.below(8)),
            _ => format!("{}[{}:{}]", ident(rng), 4 + rng.below(4), rng.below(4)),
        };
    }
    match rng.below(9) {
        0 => format!("({})", expr(rng, depth - 1)),
        1 => format!("{} + {}", expr(rng, depth - 1), expr(rng, depth - 1)),
        2 => format!("{} & {}", expr(rng, depth - 1), expr(rng, depth - 1)),
        3 => format!("{} ? {} : {}", expr(rng, depth - 1), expr(rng, depth - 1), expr(rng, depth - 1)),
        4 => format!("~{}", expr(rng, depth - 1)),
        5 => format!("{{{}, {}}}", expr(rng, depth - 1), expr(rng, depth - 1)),
        6 => format!("{} == {}", expr(rng, depth - 1), expr(rng, depth - 1)),
        7 => match rng.below(4) {
            0 => format!("f({})", expr(rng, depth - 1)),
            1 => format!("{}'({})", 1 + rng.below(16), expr(rng, depth - 1)),
            2 => format!("{}[{}'({})]", ident(rng), 1 + rng.below(8), ident(rng)),
            _ => format!("{}'({})", rng.pick(&["int", "signed", "unsigned", "logic"]), expr(rng, depth - 1)),
        },
        _ => format!("{} << {}", expr(rng, depth - 1), number(rng)),
    }
}

fn statement(rng: &mut Rng, depth: u32, out: &mut String, indent: usize) {
    let pad = " ".repeat(indent);
    match if depth == 0 { rng.below(3) } else { rng.below(8) } {
        0 => out.push_str(&format!("{}{} = {};\n", pad, ident(rng), expr(rng, 2))),
        1 => out.push_str(&format!("{}{} <= {};\n", pad, ident(rng), expr(rng, 2))),
        2 => out.push_str(&format!("{}$display(\"v=%d\", {});\n", pad, ident(rng))),
        3 => {
            out.push_str(&format!("{}if ({}) begin\n", pad, expr(rng, 1)));
            statement(rng, depth - 1, out, indent + 2);
            out.push_str(&format!("{}end else begin\n", pad));
            statement(rng, depth - 1, out, indent + 2);
            out.push_str(&format!("{}end\n", pad));
        }
        4 => {
            out.push_str(&format!("{}case ({})\n", pad, ident(rng)));
            out.push_str(&format!("{}  {}: {} = {};\n", pad, number(rng), ident(rng), expr(rng, 1)));
            out.push_str(&format!("{}  default: {} = {};\n", pad, ident(rng), number(rng)));
            out.push_str(&format!("{}endcase\n", pad));
        }
        5 => {
            out.push_str(&format!("{}for (int i = 0; i < {}; i++) begin\n", pad, 1 + rng.below(8)));
            statement(rng, depth - 1, out, indent + 2);
            out.push_str(&format!("{}end\n", pad));
        }
        6 => {
            out.push_str(&format!("{}begin : blk{}\n", pad, rng.below(10)));
            statement(rng, depth - 1, out, indent + 2);
            statement(rng, depth - 1, out, indent + 2);
            out.push_str(&format!("{}end\n", pad));
        }
        _ => out.push_str(&format!("{}#{} {} = {};\n", pad, 1 + rng.below(9), ident(rng), expr(rng, 1))),
    }
}

fn module_item(rng: &mut Rng, out: &mut String) {
    match rng.below(14) {
        0 => out.push_str(&format!("  wire [{}:0] {};\n", rng.below(16), ident(rng))),
        1 => out.push_str(&format!("  logic{}{};\n", trivia(rng), ident(rng))),
        2 => out.push_str(&format!("  reg [7:0] {}, {};\n", ident(rng), ident(rng))),
        3 => out.push_str(&format!("  assign {} = {};\n", ident(rng), expr(rng, 3))),
        4 => {
            out.push_str("  always_ff @(posedge clk or negedge rst_n) begin\n");
            statement(rng, 2, out, 4);
            out.push_str("  end\n");
        }
        5 => {
            out.push_str("  always_comb begin\n");
            statement(rng, 2, out, 4);
            statement(rng, 1, out, 4);
            out.push_str("  end\n");
        }
        6 => {
            out.push_str("  initial begin\n");
            statement(rng, 2, out, 4);
            out.push_str("  end\n");
        }
        7 => out.push_str(&format!(
            "  sub #(.W({})) u_{} (.a({}), .b({}));\n",
            number(rng),
            ident(rng),
            expr(rng, 1),
            ident(rng)
        )),
        8 => out.push_str(&format!("  parameter int P{} = {};\n", rng.below(10), number(rng))),
        9 => out.push_str(&format!("  localparam L{} = {};\n", rng.below(10), expr(rng, 2))),
        10 => {
            out.push_str(&format!("  function automatic int fn{}(input int v);\n", rng.below(10)));
            out.push_str(&format!("    return v + {};\n", number(rng)));
            out.push_str("  endfunction\n");
        }
        11 => {
            out.push_str(&format!("  generate\n    if ({}) begin : g\n", number(rng)));
            out.push_str(&format!("      assign {} = {};\n", ident(rng), expr(rng, 1)));
            out.push_str("    end\n  endgenerate\n");
        }
        12 => match rng.below(5) {
            0 => out.push_str(&format!("  sub u{} ({}, {});\n", rng.below(10), ident(rng), ident(rng))),
            1 => out.push_str(&format!("  prim ({}, {});\n", ident(rng), ident(rng))),
            2 => out.push_str(&format!("  prim #{} ({}, {}, {});\n", 1 + rng.below(9), ident(rng), ident(rng), ident(rng))),
            3 => out.push_str(&format!("  and g{} ({}, {}, {});\n", rng.below(10), ident(rng), ident(rng), ident(rng))),
            _ => out.push_str(&format!("  typedef enum logic [1:0] {{S0, S1, S2}} st{}_t;\n", rng.below(10))),
        },
        _ => {
            out.push_str(&format!("  task t{}(input int v);\n", rng.below(10)));
            statement(rng, 1, out, 4);
            out.push_str("  endtask\n");
        }
    }
}

/// a source the unchanged parser normally accepts
pub fn sv_program(rng: &mut Rng, items: usize) -> String {
    let mut out = String::new();
    let descs = 1 + rng.below(2);
    for _ in 0..descs {
        match rng.below(6) {
            0 => {
                out.push_str(&format!("package p{};\n  localparam int K = {};\nendpackage\n", rng.below(10), number(rng)));
            }
            1 => {
                out.push_str(&format!(
                    "interface if{}(input logic clk);\n  logic {};\n  modport mp(input {});\nendinterface\n",
                    rng.below(10),
                    "sig",
                    "sig"
                ));
            }
            _ => {
                let name = format!("m{}", rng.below(100));
                let mut late_ports = false;
                match rng.below(4) {
                    0 | 1 => out.push_str(&format!(
                        "module {} #(parameter W = {}) (input logic clk, input rst_n, output logic [W-1:0] q);\n",
                        name,
                        number(rng)
                    )),
                    2 => {
                        // non-ANSI header: the ANSI alternative is tried first and fails late - at the port
                        // declarations, which may come right after the header or only after the items
                        late_ports = rng.coin();
                        out.push_str(&format!("module {} #(parameter A = {}, parameter B = 2) (clk, rst_n, q);\n", name, number(rng)));
                        if !late_ports {
                            out.push_str("  input clk, rst_n;\n  output [7:0] q;\n");
                        }
                    }
                    _ => out.push_str(&format!("module {};\n", name)),
                }
                for _ in 0..items {
                    module_item(rng, &mut out);
                }
                if late_ports {
                    out.push_str("  input clk, rst_n;\n  output [7:0] q;\n");
                }
                out.push_str(&format!("endmodule{}\n", if rng.coin() { format!(" : {}", name) } else { String::new() }));
            }
        }
        if rng.chance(1, 4) {
            out.push_str(&trivia(rng));
        }
    }
    out
}

pub fn lib_program(rng: &mut Rng) -> String {
    let out = lib_program_plain(rng);
    if rng.chance(1, 3) {
        // any white space may precede a separator
        let ws = *rng.pick(&["\n", "\t", "  ", "\r\n", " /* c */ "]);
        let sep = *rng.pick(&[";", ",", " -incdir"]);
        return out.replacen(sep, &format!("{}{}", ws, sep), 1 + rng.usize_below(3));
    }
    out
}

fn lib_program_plain(rng: &mut Rng) -> String {
    let mut out = String::new();
    for i in 0..1 + rng.below(4) {
        match rng.below(10) {
            4 => out.push_str(&format!("library qlib{} \"/proj/lib/foo*.v\", \"../lib/\" -incdir \"/proj/inc\", ./i2;\n", i)),
            5 => out.push_str(&format!(
                "config cfgi{};\n  design lib{}.top lib{}.other;\n  instance top.u{} liblist lib{} work;\n  instance top.u{}.v use lib{}.cell{};\n  cell mux use lib{}.mux2 :config;\n  cell lib{}.adder liblist lib{};\nendconfig : cfgi{}\n",
                i, i, i, i, i, i, i, i, i, i, i, i
            )),
            6 => out.push_str(&format!(
                "config cfgp{};\n  localparam P = {};\n  design top;\n  default liblist;\n  instance top.a use #(.W({}), .D());\nendconfig\n",
                i,
                number(rng),
                number(rng)
            )),
            7 => out.push_str(&format!("// map {}\n/* block */ library l{} a.v ; ;\n", i, i)),
            8 => out.push_str(&format!("include \"other{}.map\";\nlibrary \\esc{}  x.v;\n", i, i)),
            9 => out.push_str(&format!("`define LIBDIR{} ./gen\nlibrary gen{} `LIBDIR{}/x.v;\n", i, i, i)),
            0 => out.push_str(&format!("library lib{} a{}.v, b/x*.v;\n", i, rng.below(9))),
            1 => out.push_str(&format!("library rtl{} ./src/f*.sv -incdir ./inc;\n", i)),
            2 => out.push_str(&format!("include other{}.map;\n", i)),
            _ => out.push_str(&format!(
                "config cfg{};\n  design lib{}.top;\n  default liblist lib{};\nendconfig\n",
                i, i, i
            )),
        }
    }
    out
}

// ---------------------------------------------------------------------------------------------
// state polluters (C07, C19): inputs that leave or exercise thread-local parser state

pub const VERSIONS: &[&str] = &[
    "1364-1995",
    "1364-2001",
    "1364-2001-noconfig",
    "1364-2005",
    "1800-2005",
    "1800-2009",
    "1800-2012",
    "1800-2017",
];

pub fn polluter(rng: &mut Rng) -> String {
    let v = rng.pick(VERSIONS);
    match rng.below(16) {
        // keyword region left open
        0 => format!("`begin_keywords \"{}\"\nmodule m; reg logic; endmodule\n", v),
        // nested regions, one left open
        1 => format!(
            "`begin_keywords \"1364-2001\"\n`begin_keywords \"{}\"\nmodule m; wire priority; endmodule\n`end_keywords\n",
            v
        ),
        // only parses under an old keyword set
        2 => "`begin_keywords \"1364-1995\"\nmodule m; wire logic, bit, byte; endmodule\n`end_keywords\n".into(),
        // kept directives inside a module
        3 => "module m;\n`timescale 1ns/1ps\n`default_nettype none\n wire a;\n`line 3 \"f.v\" 1\n`pragma protect begin\nendmodule\n".into(),
        // rejected after opening a region
        4 => format!("`begin_keywords \"{}\"\nmodule m; wire ; endmodule\n", v),
        // unterminated string: preprocessor failure
        5 => "module m; initial $display(\"abc); endmodule\n".into(),
        // unterminated block comment
        6 => "module m; /* never closed\nendmodule\n".into(),
        // recursive macro: ExceedRecursiveLimit
        7 => "`define A `B\n`define B `A\nmodule m; wire `A; endmodule\n".into(),
        // undefined macro
        8 => "module m; wire `UNDEFINED_MACRO; endmodule\n".into(),
        // directive with broken tail: text_macro_name fails after begin_keywords(\"directive\")
        9 => "`define 1bad x\nmodule m; endmodule\n".into(),
        10 => "`define\nmodule m; endmodule\n".into(),
        // macro usage with broken identifier
        11 => "module m; wire ` ; endmodule\n".into(),
        // end_keywords without begin
        12 => "`end_keywords\nmodule m; wire logic; endmodule\n".into(),
        // mismatched: version that is not known (nothing pushed) then end
        13 => "`begin_keywords \"1800-2023\"\nmodule m; endmodule\n`end_keywords\n".into(),
        // keyword as identifier under the default set: rejected
        14 => "module m; wire logic; endmodule\n".into(),
        // deep-ish ifdef with directives in dead branches
        _ => "`ifdef X\n`begin_keywords \"1364-1995\"\n`else\nmodule m; endmodule\n`endif\n".into(),
    }
}

/// a text that parses differently depending on leaked keyword/directive state: the probe
pub fn sensitive_probe(rng: &mut Rng) -> String {
    // the preprocessor's own grammar consults the keyword set too (identifier after `ifdef / `undef)
    if rng.chance(1, 3) {
        let kw = *rng.pick(&["logic", "bit", "byte", "priority", "unique", "config", "generate", "always_comb", "interface"]);
        return match rng.below(4) {
            0 => format!("`ifdef {}\nwire a;\n`else\nwire b;\n`endif\nmodule m; endmodule\n", kw),
            1 => format!("`ifndef {}\nwire c;\n`endif\nmodule m; endmodule\n", kw),
            2 => format!("`undef {}\nmodule m; endmodule\n", kw),
            _ => format!("`ifdef X\n`elsif {}\n`endif\nmodule m; endmodule\n", kw),
        };
    }
    if rng.chance(1, 8) {
        // PEG-ambiguous: which alternative wins must not depend on anything but the text
        return match rng.below(3) {
            0 => "module top(a, b);\n  wire w;\nendmodule\n".into(),
            1 => "module top(a, b, c);\nendmodule\n".into(),
            _ => "module top(a);\n  assign a = 1;\nendmodule\n".into(),
        };
    }
    match rng.below(6) {
        0 => "module m; wire logic; endmodule\n".into(),
        1 => "module m; reg bit, byte; endmodule\n".into(),
        2 => "module m; logic a; endmodule\n".into(),
        3 => "module priority; endmodule\n".into(),
        4 => "module m;\n`timescale 1ns/1ps\nwire a;\nendmodule\n".into(),
        _ => "module m; wire `define; endmodule\n".into(),
    }
}

// ---------------------------------------------------------------------------------------------
// preprocessor programs over a file system

pub struct PpProgram {
    pub nodes: Vec<VNode>,
    pub top: String,
    pub include_paths: Vec<String>,
    pub defines: Vec<DefineSpec>,
    /// every file of the include graph (normalised path), top first
    pub files: Vec<String>,
}

/// A valid multi-file program: top file, 0..=depth levels of includes, macros crossing files,
/// comments and includes always present when `rich` (so strip_comments / ignore_include matter).
pub fn pp_program(rng: &mut Rng, max_depth: usize, rich: bool) -> PpProgram {
    let mut nodes = vec![];
    let mut files = vec![];
    let dirs = ["/inc1", "/inc2", "/w/sub"];
    let ninc = 1 + rng.usize_below(2);
    let include_paths: Vec<String> = dirs.iter().take(ninc).map(|d| d.to_string()).collect();
    let depth = if rich { 1 + rng.usize_below(max_depth.max(1)) } else { rng.usize_below(max_depth + 1) };
    // leaf-to-root construction
    let mut child: Option<String> = None;
    for level in (1..=depth).rev() {
        let dir = rng.pick(&dirs[..ninc]).to_string();
        let name = format!("f{}.svh", level);
        let path = format!("{}/{}", dir, name);
        let mut body = String::new();
        // random padding: offsets in different files must be allowed to coincide or not
        body.push_str(&format!("// file {} {}\n", name, "#".repeat(rng.usize_below(48))));
        body.push_str(&format!("`define M{} v{}\n", level, level));
        if rng.coin() {
            body.push_str(&format!("`ifndef G{}\n`define G{}\n`endif\n", level, level));
        }
        if let Some(c) = &child {
            let q = if rng.chance(1, 4) { format!("<{}>", c) } else { format!("\"{}\"", c) };
            body.push_str(&format!("`include {}\n", q));
        }
        body.push_str(&format!("localparam int L{} = {}; /* lvl {} */\n", level, level, level));
        nodes.push(VNode::file(&path, &body));
        files.push(path);
        child = Some(name);
    }
    let mut top = String::new();
    if rich || rng.coin() {
        top.push_str(&format!("// top file {}\n", "#".repeat(rng.usize_below(48))));
    }
    top.push_str("`define TOPW 8\n");
    if let Some(c) = &child {
        top.push_str(&format!("`include \"{}\"\n", c));
    }
    top.push_str("module top;\n");
    top.push_str("  wire [`TOPW-1:0] bus; /* bus */\n");
    for level in 1..=depth {
        if rng.coin() {
            top.push_str(&format!("  wire `M{};\n", level));
        }
    }
    if rng.coin() {
        top.push_str("`ifdef EXT\n  wire ext;\n`else\n  wire noext; // else\n`endif\n");
    }
    let mut tmp = String::new();
    for _ in 0..rng.below(4) {
        module_item(rng, &mut tmp);
    }
    top.push_str(&tmp);
    top.push_str("endmodule\n");
    nodes.push(VNode::file("/w/top.sv", &top));
    files.insert(0, "/w/top.sv".to_string());
    let mut defines = vec![];
    if rng.coin() {
        defines.push(DefineSpec {
            name: "EXT".into(),
            has_value: rng.coin(),
            args: vec![],
            text: if rng.coin() { Some("1".into()) } else { None },
        });
    }
    PpProgram {
        nodes,
        top: "top.sv".to_string(),
        include_paths,
        defines,
        files,
    }
}

pub fn define_table(rng: &mut Rng) -> Vec<DefineSpec> {
    let mut v = vec![];
    for i in 0..rng.below(4) {
        // names the generated sources test AND use as text macros, so that every shape of a caller entry
        // (no value object, value without body, body, formals) meets a usage
        let name = match rng.below(12) {
            0 => "EXT".to_string(),
            1 => "X".to_string(),
            2 => "module".to_string(),
            3 => "define".to_string(),
            4 => format!("M{}", rng.below(4)),
            5 => format!("F{}", rng.below(3)),
            6 => "TOPW".to_string(),
            7 => format!("INC{}", rng.below(3)),
            8 => format!("CO{}", rng.below(3)),
            9 => "A".to_string(),
            _ => format!("D{}", i),
        };
        let kind = rng.below(5);
        v.push(DefineSpec {
            name,
            has_value: kind != 0,
            args: if kind == 3 { vec![("p".into(), None), ("q".into(), Some("1".into()))] } else { vec![] },
            text: match kind {
                0 | 1 => None,
                2 => Some("1".into()),
                3 => Some("(p + q)".into()),
                _ => Some("\"unterminated".into()),
            },
        });
    }
    v
}

// ---------------------------------------------------------------------------------------------
// token soups and mutation operators (C08)

const SOUP: &[&str] = &[
    "`", "\"", "\\", "/*", "*/", "//", "(", ")", "[", "]", "{", "}", "`define", "`ifdef", "`endif", "`else", "`include",
    "`undef", "`__LINE__", "`__FILE__", "`begin_keywords", "`end_keywords", "`line", "`timescale", "`pragma", "`resetall",
    "module", "endmodule", "begin", "end", "X", "1ns", "1'b", "'", "\n", " ", ";", ",", "=", "\u{e9}", "\u{4e16}", "\\x ", "``",
    "`\"", "`\\`\"", "<f>", "\"f\"", "#", "@", "1364-2001", "\r\n", "\r", "\t", "\u{c}", "\0",
];

pub fn token_soup(rng: &mut Rng, n: usize) -> String {
    let mut s = String::new();
    for _ in 0..n {
        s.push_str(*rng.pick(SOUP));
        if rng.coin() {
            s.push(' ');
        }
    }
    s
}

pub fn mutate(rng: &mut Rng, src: &str) -> String {
    let mut chars: Vec<char> = src.chars().collect();
    if rng.chance(1, 5) {
        return punct_edit(rng, src);
    }
    let ops = 1 + rng.below(3);
    for _ in 0..ops {
        if chars.is_empty() {
            break;
        }
        let i = rng.usize_below(chars.len());
        match rng.below(6) {
            0 => {
                // splice a soup token
                let t: Vec<char> = rng.pick(SOUP).chars().collect();
                for (k, c) in t.into_iter().enumerate() {
                    chars.insert(i + k, c);
                }
            }
            1 => {
                // delete a span
                let n = (1 + rng.usize_below(8)).min(chars.len() - i);
                chars.drain(i..i + n);
            }
            2 => {
                // duplicate a span
                let n = (1 + rng.usize_below(12)).min(chars.len() - i);
                let span: Vec<char> = chars[i..i + n].to_vec();
                for (k, c) in span.into_iter().enumerate() {
                    chars.insert(i + k, c);
                }
            }
            3 => {
                chars.truncate(i);
            }
            4 => {
                chars[i] = *rng.pick(&['`', '"', '\\', '/', '*', '(', ')', '\n', '\u{e9}']);
            }
            _ => {
                let j = rng.usize_below(chars.len());
                chars.swap(i, j);
            }
        }
    }
    chars.into_iter().collect()
}

// ---------------------------------------------------------------------------------------------
// preprocessor-grammar-aware programs (C08, C07): macro definitions with formals and defaults,
// usages with nested brackets / strings / commas / omitted arguments, stringification and
// pasting, continuation lines, position directives, kept directives, all line endings

fn nl(rng: &mut Rng) -> &'static str {
    match rng.below(12) {
        0 => "\r\n",
        1 => "\r",
        _ => "\n",
    }
}

fn macro_arg(rng: &mut Rng, depth: u32) -> String {
    match rng.below(if depth == 0 { 6 } else { 10 }) {
        0 => String::new(),
        1 => ident(rng),
        2 => number(rng),
        3 => format!("\"s,{})\"", ident(rng)),
        4 => " ".into(),
        5 => format!("{} + {}", ident(rng), number(rng)),
        6 => format!("({}, {})", macro_arg(rng, depth - 1), macro_arg(rng, depth - 1)),
        7 => format!("{{{}}}", macro_arg(rng, depth - 1)),
        8 => format!("[{}:{}]", number(rng), number(rng)),
        _ => format!("`M{}", rng.below(4)),
    }
}

pub fn macro_program(rng: &mut Rng) -> String {
    let mut out = String::new();
    let n = 3 + rng.below(10);
    for _ in 0..n {
        let k = rng.below(26);
        let e = nl(rng);
        match k {
            0 | 1 => out.push_str(&format!("`define M{} {}{}", rng.below(4), macro_arg(rng, 1), e)),
            2 => out.push_str(&format!("`define M{}{}", rng.below(4), e)),
            3 | 4 => {
                let d1 = if rng.coin() { format!("={}", macro_arg(rng, 1)) } else { String::new() };
                let d2 = if rng.coin() { format!(" = {}", macro_arg(rng, 1)) } else { String::new() };
                let body = match rng.below(6) {
                    0 => "a + b".to_string(),
                    1 => "`\"a``b`\"".to_string(),
                    2 => "a``_``b".to_string(),
                    3 => "\"a b\" a".to_string(),
                    4 => format!("a \\{}  b", e),
                    _ => "`\\`\"a`\\`\" b // c".to_string(),
                };
                out.push_str(&format!("`define F{}(a{},b{}) {}{}", rng.below(3), d1, d2, body, e));
            }
            5 | 6 | 7 => out.push_str(&format!("wire x{} = `M{};{}", rng.below(9), rng.below(4), e)),
            8 | 9 | 10 => {
                let args = match rng.below(5) {
                    0 => String::new(),
                    1 => macro_arg(rng, 2),
                    2 => format!("{},{}", macro_arg(rng, 2), macro_arg(rng, 2)),
                    3 => format!("{}, {}, {}", macro_arg(rng, 1), macro_arg(rng, 1), macro_arg(rng, 1)),
                    _ => ",".to_string(),
                };
                let call = if rng.chance(1, 8) { format!("`F{}", rng.below(3)) } else { format!("`F{}({})", rng.below(3), args) };
                out.push_str(&format!("assign y = {};{}", call, e));
            }
            11 => out.push_str(&format!("`undef M{}{}", rng.below(4), e)),
            12 => out.push_str(&format!("`ifdef M{}{}  a{}`elsif F{}{}  b{}`else{}  c{}`endif{}", rng.below(4), e, e, rng.below(3), e, e, e, e, e)),
            13 => out.push_str(&format!("`ifndef M{} `define M{} 1 {}`endif{}", rng.below(4), rng.below(4), e, e)),
            14 => out.push_str(&format!("$display(`__FILE__, `__LINE__);{}", e)),
            15 => {
                // the grammar allows any number token here, not only a plain decimal
                let n = match rng.below(8) {
                    0 => "1_000".to_string(),
                    1 => "8'hff".to_string(),
                    2 => "'d10".to_string(),
                    3 => "2.5".to_string(),
                    4 => "1e3".to_string(),
                    5 => "4294967296".to_string(),
                    6 => "0".to_string(),
                    _ => format!("{}", rng.below(100)),
                };
                out.push_str(&format!("`line {} \"f.v\" {}{}$display(`__LINE__);{}", n, rng.below(3), e, e));
            }
            16 => out.push_str(&format!("`timescale {}{} / {}{}{}", rng.pick(&["1", "10", "100", "1_0", "3"]), rng.pick(&["ns", "ps", "us", "s", "ms"]), rng.pick(&["1", "10", "100"]), rng.pick(&["ps", "fs", "ns"]), e)),
            17 => out.push_str(&format!("`begin_keywords \"{}\"{}", rng.pick(VERSIONS), e)),
            18 => out.push_str(&format!("`end_keywords{}", e)),
            19 => out.push_str(&format!("`pragma protect {}{}", ident(rng), e)),
            20 => out.push_str(&format!("\\esc{}id  `M{} \"str `M{} \\\" x\" /* c `M1 */ // `M2{}", rng.below(9), rng.below(4), rng.below(4), e)),
            21 => out.push_str(&format!("`{}{}", rng.pick(&["resetall", "celldefine", "endcelldefine", "undefineall", "nounconnected_drive", "unconnected_drive pull1", "default_nettype none"]), e)),
            22 | 24 | 25 => match rng.below(4) {
                // the file name comes out of a macro expansion: quoted, angle-bracketed, bare, empty or a lone delimiter
                0 => {
                    let body = *rng.pick(&["\"included.svh\"", "<included.svh>", "included.svh", "", "\"", "<", "\"\"", "<>", " ", "\"f", "f\""]);
                    let k = rng.below(3);
                    let k2 = if rng.chance(1, 6) { rng.below(3) } else { k };
                    out.push_str(&format!("`define INC{} {}{}`include `INC{}{}", k, body, e, k2, e));
                }
                1 => {
                    let arg = macro_arg(rng, 1);
                    out.push_str(&format!("`define INCF(x) x{}`include `INCF({}){}", e, arg, e));
                }
                _ => out.push_str(&format!("`include \"{}\"{}", rng.pick(&["included.svh", "f", "missing.svh", "top.sv"]), e)),
            },
            _ => out.push_str(&format!("`M{}(`M{}){}", rng.below(4), rng.below(4), e)),
        }
    }
    out
}

/// a different text of exactly the same byte length (one ASCII letter or digit changed)
pub fn same_len_variant(rng: &mut Rng, text: &str) -> String {
    let idx: Vec<usize> = text
        .char_indices()
        .filter(|(_, c)| c.is_ascii_alphanumeric())
        .map(|(i, _)| i)
        .collect();
    if idx.is_empty() {
        return text.to_string();
    }
    let i = *rng.pick(&idx);
    let mut b = text.as_bytes().to_vec();
    b[i] = match b[i] {
        b'a'..=b'y' | b'A'..=b'Y' | b'0'..=b'8' => b[i] + 1,
        b'z' => b'a',
        b'Z' => b'A',
        _ => b'0',
    };
    String::from_utf8(b).unwrap_or_else(|_| text.to_string())
}


/// move a program under `prefix` (its own cwd-like directory and search directories) and stamp
/// every file with `tag`, so that several projects can use the same header names with different content
pub fn relocate(mut prog: PpProgram, prefix: &str, tag: &str) -> PpProgram {
    let mv = |p: &str| -> String { format!("{}{}", prefix, p) };
    for n in prog.nodes.iter_mut() {
        if let VNode::File { path, bytes } = n {
            *path = mv(path);
            let t = String::from_utf8_lossy(&bytes.to_vec()).to_string();
            let t = t.replace("localparam int L", &format!("localparam int {}_L", tag)).replace("`define M", &format!("`define {}X 1\n`define M", tag));
            *bytes = Bytes::Text(format!("// project {}\n{}", tag, t));
        }
    }
    prog.include_paths = prog.include_paths.iter().map(|p| mv(p)).collect();
    prog.files = prog.files.iter().map(|p| mv(p)).collect();
    prog.top = mv("/w/top.sv");
    prog
}


/// an accepted module whose single expression nests `depth` parentheses
pub fn deep_parens(rng: &mut Rng, depth: usize) -> String {
    let mut e = ident(rng);
    for i in 0..depth {
        e = match i % 3 {
            0 => format!("({})", e),
            1 => format!("({} + 1)", e),
            _ => format!("(~{})", e),
        };
    }
    format!("module deep;\n  assign y = {};\nendmodule\n", e)
}

/// k nested / sequential occurrences of a stateful construct (bounded resources show at a specific count)
pub fn repeated_construct(rng: &mut Rng) -> String {
    let k = 2 + rng.usize_below(70);
    let v = *rng.pick(VERSIONS);
    match rng.below(8) {
        0 => format!("{}module m; endmodule\n", format!("`begin_keywords \"{}\"\n", v).repeat(k)),
        1 => format!("{}module m; endmodule\n{}", format!("`begin_keywords \"{}\"\n", v).repeat(k), "`end_keywords\n".repeat(k)),
        2 => format!("{}module m; endmodule\n", format!("`begin_keywords \"{}\"\n`end_keywords\n", v).repeat(k)),
        3 => format!("{}wire w;\n{}", "`ifdef A\n`else\n".repeat(k.min(40)), "`endif\n".repeat(k.min(40))),
        4 => format!("module m;\n{}endmodule\n", "  `timescale 1ns/1ps\n  wire a;\n".repeat(k)),
        5 => {
            let mut s = String::new();
            for i in 0..k {
                s.push_str(&format!("`define R{} `R{}\n", i, i + 1));
            }
            s.push_str(&format!("`define R{} leaf\nwire `R0;\n", k));
            s
        }
        6 => format!("{}module m; endmodule\n", "`resetall\n".repeat(k)),
        _ => format!("module m; initial begin {} end endmodule\n", "begin ".repeat(k.min(30)) + &"end ".repeat(k.min(30))),
    }
}


/// insert trivia that carries parser state (keyword regions, kept directives, comments) at token
/// boundaries of a source: any whitespace position is a legal place for it
pub fn inject_directives(rng: &mut Rng, text: &str) -> String {
    // candidate positions: the start of each whitespace run outside strings / comments (cheap approximation:
    // skip lines that contain a quote, a backtick or a comment opener)
    let mut pos: Vec<usize> = vec![];
    let mut off = 0;
    for line in text.split_inclusive('\n') {
        if !line.contains('"') && !line.contains('`') && !line.contains("//") && !line.contains("/*") {
            let b = line.as_bytes();
            for i in 1..b.len() {
                if (b[i] == b' ' || b[i] == b'\n') && !(b[i - 1] == b' ' || b[i - 1] == b'\n') {
                    pos.push(off + i);
                }
            }
        }
        off += line.len();
    }
    if pos.is_empty() {
        return text.to_string();
    }
    let mut ins: Vec<(usize, String)> = vec![];
    let n = 1 + rng.usize_below(3);
    for _ in 0..n {
        let p = *rng.pick(&pos);
        match rng.below(9) {
            7 | 8 => {
                // conditional blocks kept as trivia, with directives nested in the body and trivia after the `endif
                let inner = match rng.below(4) {
                    0 => "`define B 1\n".to_string(),
                    1 => "  `ifdef B\n  `endif\n".to_string(),
                    2 => "`undef B\n`define C(x) x\n".to_string(),
                    _ => "`ifndef B\n`else\n`endif\n".to_string(),
                };
                let tail = match rng.below(5) {
                    0 => "// trailing comment\n",
                    1 => "`timescale 1ns/1ps\n",
                    2 => " /* c */\n",
                    3 => "`resetall\n",
                    _ => "",
                };
                let head = *rng.pick(&["`ifdef A", "`ifndef A", "`ifdef A\n`elsif Z"]);
                ins.push((p, format!("\n{}\n{}`endif\n{}", head, inner, tail)));
            }
            0 | 1 => {
                // a balanced region: begin at p, end at a later position
                let later: Vec<usize> = pos.iter().cloned().filter(|q| *q > p).collect();
                let v = *rng.pick(VERSIONS);
                ins.push((p, format!(" `begin_keywords \"{}\" ", v)));
                if !later.is_empty() && rng.chance(5, 6) {
                    ins.push((*rng.pick(&later), " `end_keywords ".to_string()));
                }
            }
            2 => ins.push((p, " `end_keywords ".to_string())),
            3 => ins.push((p, " `timescale 1ns/1ps ".to_string())),
            4 => ins.push((p, " `default_nettype none ".to_string())),
            5 => {
                if rng.coin() {
                    ins.push((p, " /* c */ ".to_string()))
                } else {
                    ins.push((p, format!("\n{}", pragma_lines(rng))))
                }
            }
            _ => ins.push((p, "\n`line 7 \"x.v\" 0\n".to_string())),
        }
    }
    ins.sort_by(|a, b| b.0.cmp(&a.0));
    let mut out = text.to_string();
    for (p, t) in ins {
        out.insert_str(p, &t);
    }
    out
}

pub fn corpus_sv_nth(i: usize, max: usize) -> Option<&'static str> {
    let c = corpus();
    let svs: Vec<&Snippet> = c.snippets.iter().filter(|s| s.kind == "sv").collect();
    let s = svs[i % svs.len()];
    if s.text.len() <= max {
        Some(&s.text)
    } else {
        None
    }
}

pub fn corpus_sv_count() -> usize {
    corpus().snippets.iter().filter(|s| s.kind == "sv").count()
}


/// comments inside macro bodies, arguments and next to usages: the places where strip_comments acts
/// inside nested expansions
pub fn comment_macro_program(rng: &mut Rng) -> String {
    let mut out = String::new();
    out.push_str("// head comment\n");
    let n = 2 + rng.below(4);
    for i in 0..n {
        match rng.below(5) {
            0 => out.push_str(&format!("`define CM{}(x) x /* in body {} */ + 1\nwire a{} = `CM{}({}); /* after */\n", i, i, i, i, number(rng))),
            1 => out.push_str(&format!("`define CN{} /* only a comment */\nwire b{} `CN{} ;\n", i, i, i)),
            2 => out.push_str(&format!("`define CO{} {} // line comment in body\nwire c{} = `CO{} ;\n", i, ident(rng), i, i)),
            3 => out.push_str(&format!("`define CP{}(x, y) x /* 1 */ y /* 2 */\nassign d{} = `CP{}(a /* in arg */, + b);\n", i, i, i)),
            _ => out.push_str(&format!("`define CQ{} `CO0 /* nested */\n/* between */ wire e{};\n", i, i)),
        }
    }
    out.push_str("module m; /* m */ endmodule // tail\n");
    out
}


/// near-valid inputs: one punctuation-level edit (dangling separator before a closer, doubled or
/// dropped separator, dropped closer) at a random place of an accepted source
pub fn punct_edit(rng: &mut Rng, text: &str) -> String {
    let b = text.as_bytes();
    let closers: Vec<usize> = (0..b.len()).filter(|i| matches!(b[*i], b')' | b']' | b'}')).collect();
    let seps: Vec<usize> = (0..b.len()).filter(|i| matches!(b[*i], b',' | b';')).collect();
    let mut out = text.to_string();
    // headers come first: half of the time edit near the start
    let closers: Vec<usize> = if closers.len() > 3 && rng.coin() { closers[..3].to_vec() } else { closers };
    match rng.below(5) {
        0 | 1 if !closers.is_empty() => {
            let i = *rng.pick(&closers);
            out.insert(i, ',');
        }
        2 if !seps.is_empty() => {
            let i = *rng.pick(&seps);
            out.insert(i, b[i] as char);
        }
        3 if !seps.is_empty() => {
            let i = *rng.pick(&seps);
            out.replace_range(i..i + 1, " ");
        }
        _ if !closers.is_empty() => {
            let i = *rng.pick(&closers);
            out.replace_range(i..i + 1, " ");
        }
        _ => {}
    }
    out
}


/// a large text (several thousand memo entries): repeats of a small module
pub fn big_text(rng: &mut Rng) -> String {
    let n = 60 + rng.usize_below(400);
    let mut out = String::with_capacity(n * 160);
    for i in 0..n {
        out.push_str(&format!("module big{}(input logic clk, output logic [7:0] q);\n  logic [7:0] r{};\n  always_ff @(posedge clk) r{} <= r{} + 8'd1;\n  assign q = r{};\nendmodule\n", i, i, i, i, i));
    }
    out
}

/// a probe whose tree is known to differ between memo capacities at and above the declared 1024 (the
/// listed keyword-directive finding): anything that lets the capacity depend on the past shows here
pub fn capacity_sensitive_probe(rng: &mut Rng) -> String {
    let n = 20 + rng.usize_below(60);
    let mut out = String::from("module m(a);\n`begin_keywords \"1364-2001\"\n");
    for i in 0..n {
        out.push_str(&format!("  wire w{};\n", i));
    }
    out.push_str("  input a;\n`end_keywords\n  wire logic;\nendmodule\n");
    out
}


/// the repo's module-item snippets are wrapped in `module m; ... endmodule`; this variant wraps them in a
/// non-ANSI module whose port declaration FOLLOWS the items: the ANSI alternative parses all items, fails
/// at the declaration, and the non-ANSI alternative parses them again (replaying or recomputing memo entries)
pub fn rewrap_nonansi(text: &str) -> String {
    rewrap_nonansi_with(text, "")
}

/// same, with `after_header` (trivia, a pragma envelope, a directive) right behind the header: the white space
/// there is parsed by the ANSI attempt and again by the non-ANSI one
pub fn rewrap_nonansi_with(text: &str, after_header: &str) -> String {
    if let Some(body) = text.strip_prefix("module m;\n") {
        if let Some(i) = body.rfind("endmodule") {
            return format!("module m(zz_p);\n{}{}  input zz_p;\n{}", after_header, &body[..i], &body[i..]);
        }
    }
    text.to_string()
}

/// a protected envelope (IEEE 1800-2017 clause 34) of some size: what stands between begin_protected and
/// end_protected is ordinary text for this parser; the number of lines decides how many memo entries lie between
/// the two pragmas
pub fn protected_envelope(rng: &mut Rng) -> String {
    let mut out = String::new();
    let head = [
        "`pragma protect begin_protected\n",
        "`pragma protect data_method=\"x-caesar\", data_keyname=\"rot13\", begin_protected\n",
        "`pragma protect version=1, begin_protected\n",
    ];
    out.push_str(*rng.pick(&head));
    let lines = [
        "`pragma protect version=1\n",
        "`pragma protect encrypt_agent=\"ACME tool\", encrypt_agent_info=\"1.0\"\n",
        "`pragma protect key_keyowner=\"ACME\", key_keyname=\"ACME-2048\", key_method=\"rsa\"\n",
        "`pragma protect encoding=(enctype=\"base64\", line_length=64, bytes=256), key_block\n",
        "`pragma protect author=\"IP vendor\", author_info=\"support@example.com\"\n",
        "`pragma protect runtime_license=(library=\"lic.so\", feature=\"runSecret\", entry=\"chk\", match=42)\n",
        "`pragma protect data_method=\"aes128-cbc\"\n",
        "`pragma protect encoding=(enctype=\"raw\", bytes=190), data_block\n",
        "  wire hidden_0;\n",
        "  wire hidden_1;\n",
        "  wire hidden_key_0;\n",
        "  // payload\n",
    ];
    for _ in 0..rng.below(11) {
        out.push_str(*rng.pick(&lines));
    }
    out.push_str("`pragma protect end_protected\n");
    out
}

/// like `rewrap_nonansi_with`, but the port declaration follows the header trivia at once: the ANSI attempt then
/// fails right behind that trivia, and the non-ANSI attempt re-reads it while few entries have been stored since
pub fn rewrap_nonansi_early(text: &str, after_header: &str) -> String {
    if let Some(body) = text.strip_prefix("module m;\n") {
        return format!("module m(zz_p);\n{}  input zz_p;\n{}", after_header, body);
    }
    text.to_string()
}

/// `pragma with the name alone on its line, then a line that is a complete expression list by itself, whose last
/// expression nevertheless goes on in the line after it
pub fn pragma_continuation(rng: &mut Rng) -> String {
    let name = *rng.pick(&["protect", "foo"]);
    let (line, cont) = *rng.pick(&[
        ("key_keyname", "= \"F\""),
        ("a, b", ", begin"),
        ("version = 1, k", "= (x, y = 2)"),
        ("encoding", "= (enctype = \"raw\"), data_block"),
        ("a", ", b"),
    ]);
    let ind = *rng.pick(&["", "  ", "\t"]);
    format!("`pragma {}\n{}{}\n{}{}\n", name, ind, line, ind, cont)
}

/// `pragma with its expression list broken over lines in every way
pub fn pragma_lines(rng: &mut Rng) -> String {
    if rng.chance(1, 4) {
        // a protected envelope: whatever stands between the two pragmas is ordinary text for the parser
        let inner = match rng.below(3) {
            0 => format!("  wire env{};\n", rng.below(9)),
            1 => "  // encrypted payload\n".to_string(),
            _ => String::new(),
        };
        return format!("`pragma protect begin_protected\n{}`pragma protect end_protected\n", inner);
    }
    let name = *rng.pick(&["protect", "foo", "translate_off", "reset"]);
    let parts: Vec<&str> = match rng.below(5) {
        0 => vec!["key_keyname", "=", "\"F\""],
        1 => vec!["a", ",", "b", ",", "begin"],
        2 => vec!["k", "=", "(", "x", ",", "y", "=", "2", ")"],
        3 => vec!["encoding", "=", "(", "enctype", "=", "\"raw\"", ")", ",", "data_block"],
        _ => vec![],
    };
    let mut out = format!("`pragma {}", name);
    for p in parts {
        out.push_str(match rng.below(4) {
            0 => "\n",
            1 => "\n  ",
            _ => " ",
        });
        out.push_str(p);
    }
    out.push('\n');
    out
}


/// a structural netlist: module, UDP and gate instantiations in every naming / delay / strength form,
/// under an ANSI header or a non-ANSI header whose port declarations come before or after the items
pub fn netlist_program(rng: &mut Rng) -> String {
    let mut out = String::new();
    let style = rng.below(3);
    match style {
        0 => out.push_str("module top (input a, input b, output y);\n"),
        _ => out.push_str("module top (a, b, y);\n"),
    }
    if style == 1 {
        out.push_str("  input a, b;\n  output y;\n");
    }
    let n = 2 + rng.below(6);
    // typical netlist shape: named instances with ordered ports first, primitives among them later
    let lead_named = rng.coin();
    let force_prim = if rng.coin() { 1 + rng.below(n - 1) } else { u64::MAX };
    for i in 0..n {
        let (x, y, z) = (ident(rng), ident(rng), ident(rng));
        let kind = if i == 0 && lead_named {
            0
        } else if i == force_prim {
            3 + rng.below(2)
        } else {
            rng.below(12)
        };
        match kind {
            0 | 1 => out.push_str(&format!("  sub u{} ({}, {});\n", i, x, y)),
            2 => out.push_str(&format!("  sub u{} ({}, {}, {});\n", i, x, y, z)),
            3 => out.push_str(&format!("  prim ({}, {}, {});\n", x, y, z)),
            4 => out.push_str(&format!("  prim #{} p{} ({}, {}, {});\n", 1 + rng.below(9), i, x, y, z)),
            5 => out.push_str(&format!("  prim #({}, {}) ({}, {});\n", 1 + rng.below(5), 1 + rng.below(5), x, y)),
            6 => out.push_str(&format!("  and g{} ({}, {}, {});\n", i, x, y, z)),
            7 => out.push_str(&format!("  nand (strong0, weak1) #{} ({}, {}, {});\n", 1 + rng.below(4), x, y, z)),
            8 => out.push_str(&format!("  sub #(.W({})) u{} (.p({}), .q({}));\n", number(rng), i, x, y)),
            9 => out.push_str(&format!("  wire w{}, v{};\n  assign w{} = {} & {};\n", i, i, i, x, y)),
            10 => out.push_str(&format!("  sub u{} [3:0] ({}, {});\n", i, x, y)),
            _ => out.push_str(&format!("  bufif1 b{} ({}, {}, {});\n", i, x, y, z)),
        }
    }
    if style == 2 {
        out.push_str("  input a, b;\n  output y;\n");
    }
    out.push_str("endmodule\n");
    out
}
