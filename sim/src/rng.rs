//! The single source of randomness: splitmix64 seeding xoshiro256**.
//! Nothing in the simulator reads a clock or an OS random source for a decision.

#[derive(Clone, Debug)]
pub struct Rng {
    s: [u64; 4],
}

pub fn splitmix64(state: &mut u64) -> u64 {
    *state = state.wrapping_add(0x9E37_79B9_7F4A_7C15);
    let mut z = *state;
    z = (z ^ (z >> 30)).wrapping_mul(0xBF58_476D_1CE4_E5B9);
    z = (z ^ (z >> 27)).wrapping_mul(0x94D0_49BB_1331_11EB);
    z ^ (z >> 31)
}

/// Stable 64-bit FNV-1a, used to derive sub-streams from names.
pub fn fnv(bytes: &[u8]) -> u64 {
    let mut h: u64 = 0xcbf2_9ce4_8422_2325;
    for b in bytes {
        h ^= *b as u64;
        h = h.wrapping_mul(0x0000_0100_0000_01b3);
    }
    h
}

pub fn mix(a: u64, b: u64) -> u64 {
    let mut s = a ^ b.rotate_left(32) ^ 0x5851_F42D_4C95_7F2D;
    let x = splitmix64(&mut s);
    x ^ splitmix64(&mut s)
}

/// per-run seed = H(seed, property, run index)
pub fn run_seed(seed: u64, property: &str, run: u64) -> u64 {
    mix(mix(seed, fnv(property.as_bytes())), run)
}

impl Rng {
    pub fn new(seed: u64) -> Rng {
        let mut st = seed;
        let s = [
            splitmix64(&mut st),
            splitmix64(&mut st),
            splitmix64(&mut st),
            splitmix64(&mut st),
        ];
        Rng { s }
    }

    /// independent sub-stream
    pub fn fork(&mut self, tag: &str) -> Rng {
        let a = self.next();
        Rng::new(mix(a, fnv(tag.as_bytes())))
    }

    pub fn next(&mut self) -> u64 {
        let result = self.s[1].wrapping_mul(5).rotate_left(7).wrapping_mul(9);
        let t = self.s[1] << 17;
        self.s[2] ^= self.s[0];
        self.s[3] ^= self.s[1];
        self.s[1] ^= self.s[2];
        self.s[0] ^= self.s[3];
        self.s[2] ^= t;
        self.s[3] = self.s[3].rotate_left(45);
        result
    }

    /// uniform in 0..n (n > 0)
    pub fn below(&mut self, n: u64) -> u64 {
        debug_assert!(n > 0);
        // multiply-shift; bias negligible for our n
        ((self.next() as u128 * n as u128) >> 64) as u64
    }

    pub fn usize_below(&mut self, n: usize) -> usize {
        self.below(n as u64) as usize
    }

    /// uniform in lo..=hi
    pub fn range(&mut self, lo: u64, hi: u64) -> u64 {
        lo + self.below(hi - lo + 1)
    }

    pub fn chance(&mut self, num: u64, den: u64) -> bool {
        self.below(den) < num
    }

    pub fn coin(&mut self) -> bool {
        self.next() & 1 == 1
    }

    pub fn pick<'a, T>(&mut self, xs: &'a [T]) -> &'a T {
        &xs[self.usize_below(xs.len())]
    }

    pub fn shuffle<T>(&mut self, xs: &mut [T]) {
        for i in (1..xs.len()).rev() {
            let j = self.usize_below(i + 1);
            xs.swap(i, j);
        }
    }
}
