#!/usr/bin/env python3
"""Regenerates /verif/MANIFEST.json from one table (keeps the file valid and consistent)."""
import json, subprocess
NA = {
"C01":"lossless tiling relates one accepted text to its own tree: a pure function of the input string; no schedule, fault, history or knob to simulate (DESIGN.md §7)",
"C02":"Annex A classification of generated sentences is grammar-based input generation with no environment; not a simulation target (DESIGN.md §7)",
"C03":"origin map is a per-byte pure function of (files, defines) on a file system that never fails or changes; the VFS would only be a container (DESIGN.md §7)",
"C04":"branch selection is a pure function of text and define table; its one I/O sliver (dead-branch include never opened) is watched by C10's I/O monitor (DESIGN.md §7)",
"C05":"macro expansion is string-to-string semantics of one call; nothing for a scheduler or fault injector to decide (DESIGN.md §7)",
"C06":"identity / fixed point f(s)=s over strings: pure function of the input (DESIGN.md §7)",
"C11":"the define table is passed explicitly by the caller, so threading across files relates outputs of independent pure calls; hidden state between calls is C07 (DESIGN.md §7)",
"C12":"metamorphic relation on one input; the thread-local stacks it mentions live and die inside one call (DESIGN.md §7)",
"C13":"which identifiers one deterministic parse accepts under the keyword set in force; no environment (DESIGN.md §7)",
"C14":"the 'fault' is an edited input string; file indirection adds no failure or ordering (DESIGN.md §7)",
"C15":"relation between two pure calls differing in one boolean (DESIGN.md §7)",
"C16":"traversal order is a function of an immutable tree (DESIGN.md §7)",
"C18":"relation between two pure calls differing in one boolean (DESIGN.md §7)",
}
CHECKS = {
"C07": dict(cat="exploration", ref="§6 C07",
  text="Seeded search over call histories on one long-lived simulated caller thread; every call's full result digest (text, every origin, define table, tree with offsets, or error) must equal the same call on a fresh thread against the same file-system snapshot. Sampling, not proof: evidence reports histories run, residue/address-reuse probes and fault kinds fired.",
  note="Trusts: hooks faithful (repo tests pass guard on/off); slot device decides address reuse (same address, same length, adjacent slices) for caller-owned texts only; references run in pristine child processes, so process-wide state is visible; library-internal RandomState unseeded; digests cover what the public API exposes.",
  tech="deterministic simulation: seeded call histories vs fresh-thread reference, simulated file system with per-call fault plan"),
"C08": dict(cat="fault_enumeration", ref="§6 C08",
  text="Per base scenario (valid multi-file program, repo preprocessor testcase over its directory, corpus snippet, mutated or token-soup text) the file-system fault space is enumerated: quick samples 24 fault sets per scenario, thorough executes EVERY single fault (each file x open errors, truncation at every byte offset, 12 corrupting bytes at every offset, EIO at 17 offsets, TOCTOU on probes) plus transparent-fault and string-entry controls; every Ok tree is iterated, formatted and converted node by node. Oracle: no panic / process death, and the Err shape the statement prescribes for missing and non-UTF-8 files, derived from the simulated file system's own event log.",
  note="Trusts: hooks faithful; Vfs error semantics; allocation failure and signals not modelled; step-budget-exhausted executions are counted, not judged; nesting > 64 out of claim.",
  tech="deterministic simulation: fault enumeration on a simulated file system (open/read/probe faults, truncation and corruption at every offset), panic and crash containment, error-shape oracle from the VFS event log"),
"C09": dict(cat="exploration", ref="§6 C09",
  text="The structured recursion family (8 mechanisms x cycles of length 1..8 and chains of depth 1..80) is enumerated completely in both tiers, with sampled decorations and caller stack sizes 2/8/256 MiB; bounded progress is decided by step and open budgets, stack exhaustion by the death of the worker process. Exhaustive over the family, sampling over decorations.",
  note="Trusts: hooks faithful; FileScope/MacroScope probes report true nesting; a 2 MiB caller stack is the smallest in the claim; exponential fan-out chains are outside the family.",
  tech="deterministic simulation: enumerated include/macro recursion graphs on a simulated file system, step/open budgets as progress measure, process-level crash containment, stack-size knob"),
"C10": dict(cat="fault_enumeration", ref="§6 C10, Appendix C",
  text="Include graphs in a line language over the simulated file system, each named file present as distinct physical copies in none/one/several of cwd and the search directories, with faults on the resolution conversation (TOCTOU vanish/appear on exists, ENOENT/EACCES on open, non-UTF-8 copy). An executable reference model independent of the repository interprets the language and conducts its own exists/open/read conversation with a twin file system; operation logs, output tokens, returned define table and error value must all agree. Sampling over graphs; per graph every include edge is exercised.",
  note="Trusts: the reference model (about 250 lines, restricted to a line language whose semantics the statement fixes); Vfs semantics; hooks faithful. String literals appear only as rejected same-line neighbours; same-line neighbours are not generated under ignore_include.",
  tech="deterministic simulation: reference-model refinement check over a simulated file system with TOCTOU/open/read fault injection and an I/O-conversation monitor"),
"C17": dict(cat="exploration", ref="§6 C17 (\"C17 as built, final\")",
  text="Seeded search over inputs x memo capacities (fixed 1..4096 and unbounded, four random, and in one run of six about 60 log-uniform capacities) with the capacity knob owned by the simulator (instrumented fork of nom-packrat in the dependency seam); accept/reject and tree must equal the declared-capacity result. Every diverging capacity is shrunk and discriminated on its own: with a flag-aware memo key at that capacity and on a ladder of capacities around it (first listed finding: key omits left-recursion flags), then - flag-aware key kept - with the keyword directives blanked out or the keyword set frozen (second listed finding: keyword-version stack outside the key). What the listed findings explain is reported as KNOWN-FINDING, anything else is a violation.",
  note="Trusts: the nom-packrat fork is upstream code plus knobs; only whole-call FIFO capacities are explored; step budgets bound memo-starved parses (counted as budget_skipped); a divergence whose discriminator exhausts its budget is 'unattributed' and does not fail the check. Limit: the discriminators are interventions on the memo and change which entries are resident, so a residency-dependent defect in expression-heavy input can be attributed to the first known finding (seeded change C17-r6b; DESIGN.md section 13).",
  tech="deterministic simulation: randomised tuning knob (memo capacity) with hit/miss/eviction probes, differential against the shipped configuration, intervention-based discriminators (flag-aware key on a capacity ladder, blanked keyword directives, frozen keyword set) for the two known findings"),
"C19": dict(cat="exploration", ref="§6 C19",
  text="Seeded search over interleavings of 2-4 simulated caller threads (real OS threads parked and released one at a time at every grammar terminal, parser-state mutation and file operation; random, PCT and mutation-biased policies); every call must return what it returns when its thread's program runs alone. Failing schedules are frozen to an explicit switch list and minimised. Half of the runs give every thread its own project with equal header names; further families: a crowd of 130 threads, 3-4 threads each deep in an include chain or deep in parentheses, macro chains on several threads; 1/8 of the runs are a free-running supplement (threads released together, interleaving NOT decided, statistical replay) for changes that bring their own blocking synchronisation.",
  note="Trusts: hooks faithful; every write to thread-local parser state is preceded by a yield point; the scheduler serialises execution, so data-race UB itself (as opposed to its logical effect) is not observable. Limit: process-wide OS state outside the simulated file system (the real working directory) is not modelled (seeded change C19-r6a).",
  tech="deterministic simulation: seeded baton scheduler over real threads, recorded/replayable switch lists, solo-run reference"),
"C20": dict(cat="exploration", ref="§6 C20",
  text="Seeded search over programs on the simulated file system x flag combinations; the file, string and two-step entry points of a group must return identical digests while the file side receives its bytes through short reads and EINTR and all calls meet the same missing/non-UTF-8 includes. Families: each call in its own pristine process; the whole group on one thread of one process before and after the files are rewritten; include chains of depth 60..68; byte-level variants of the top file (BOM, CRLF, no final newline).",
  note="Trusts: hooks faithful; Vfs read semantics model POSIX read(2); each call on a fresh thread so C07 effects are excluded.",
  tech="deterministic simulation: differential entry-point groups over a simulated file system with transparent I/O fault injection"),
}
def main():
    hooks = subprocess.run(["git","-C","/repo","log","--format=%h %s"],capture_output=True,text=True).stdout.splitlines()
    hook_commits=[l.split()[0] for l in hooks if "verif-hooks:" in l][::-1]
    checks=[]
    for pid,c in sorted(CHECKS.items()):
        checks.append({
          "property_id":pid,
          "quick_cmd":f"./bin/check {pid} quick",
          "thorough_cmd":f"./bin/check {pid} thorough",
          "evidence_file":f"/verif/evidence/{pid}.json",
          "replay_cmd_template":"./bin/check replay {path}",
          "engine":"svsim",
          "level_claimed":{"category":c["cat"],"text":c["text"],"design_ref":c["ref"]},
          "level_note":c["note"],
          "technique":c["tech"],
        })
    na=[{"property_id":k,"reason":v} for k,v in sorted(NA.items()) if k not in CHECKS]
    m={
     "version":1,
     "setup_cmd":"cd /verif/sim && CARGO_NET_OFFLINE=true cargo build --release --offline",
     "hooks":{
       "guard":"sv_parser_verif",
       "enable":"RUSTFLAGS=\"--cfg sv_parser_verif\" (set as build.rustflags in /verif/sim/.cargo/config.toml); a rustc cfg, not a cargo feature, so no manifest in /repo changes",
       "baseline_off_cmd":"cd /repo && cargo test --workspace --no-fail-fast --offline",
       "source_commits":hook_commits,
       "add_only":False
     },
     "engines":[{"name":"svsim","path":"/verif/sim","serves_properties":sorted(CHECKS.keys()),
       "kind_free_text":"deterministic simulator: real library code on parked OS threads under a seeded baton scheduler, simulated file system with fault plan, memo-capacity knob through an instrumented nom-packrat fork, explicit replayable scenarios, one pristine child process per execution (crash containment, process-level references)"}],
     "checks":checks,
     "notes":"bin/check rebuilds svsim (path dependencies on /repo, hooks on) before every run. Exit 0 held, 1 violation (VIOLATION line + replay file), 2 harness error / no verdict. Known findings: /verif/known_findings.txt. Sensitivity mutants: /verif/mutants, /verif/seeded.",
     "not_applicable":na,
    }
    json.dump(m,open("/verif/MANIFEST.json","w"),indent=1)
main()
